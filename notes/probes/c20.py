import sqlite3, threading, shutil, tempfile, time, sys, os
from pathlib import Path
import wikitextprocessor.core as core
from wikitextprocessor import Wtp
USTRING = "local u = {} for k, v in pairs(string) do u[k] = v end return u"
MOD = "local e = {} function e.f(frame) return 'L' .. (frame.args[1] or '') end return e"

class Sched:
    def __init__(self, n, prefix):
        self.n = n; self.prefix = list(prefix); self.choices = []; self.points = []
        self.sems = [threading.Semaphore(0) for _ in range(n)]
        self.main = threading.Semaphore(0)
        self.state = ["new"]*n   # new, ready, blocked, done
        self.label = [None]*n
        self.current = None
        self.woken = [False]*n; self.deadlock = False; self.giveup = False
        self.tid = threading.local()
    # worker side
    def point(self, label, blocked=False):
        i = self.tid.i
        self.state[i] = "blocked" if blocked else "ready"
        self.label[i] = label
        self.main.release()
        self.sems[i].acquire()
    def run(self, bodies):
        ths=[]
        self.errors=[None]*self.n; self.results=[None]*self.n
        def wrap(i):
            self.tid.i = i
            self.sems[i].acquire()
            try: self.results[i] = bodies[i]()
            except BaseException as e: self.errors[i] = repr(e)
            self.state[i] = "done"; self.main.release()
        for i in range(self.n):
            t = threading.Thread(target=wrap, args=(i,)); t.start(); ths.append(t)
            self.state[i] = "ready"
        step = 0; last = None; blocked_rounds = 0
        while True:
            enabled = [i for i in range(self.n) if self.state[i] == "ready" or (self.state[i] == "blocked" and self.woken[i])]
            if not enabled:
                if any(st == "blocked" for st in self.state):
                    self.deadlock = True
                    for i in range(self.n):
                        if self.state[i] == "blocked": self.woken[i] = True
                    self.giveup = True
                    enabled = [i for i in range(self.n) if self.state[i] == "blocked"]
                else: break
            # canonical order: running thread first if still enabled and not blocked
            order = sorted(enabled, key=lambda i: (0 if (i == last and self.state[i]=="ready") else 1, self.state[i]=="blocked", i))
            c = self.prefix[step] if step < len(self.prefix) else 0
            if c >= len(order): raise RuntimeError("replay divergence")
            pick = order[c]
            self.points.append((list(order), last, [self.state[i] for i in order], self.label[pick]))
            self.choices.append(c)
            last = pick; step += 1
            for j in range(self.n):
                if j != pick: self.woken[j] = True
            self.woken[pick] = False
            self.sems[pick].release()
            self.main.acquire()
        for t in ths: t.join(timeout=5)
        return self

SCHED = None
class Conn(sqlite3.Connection):
    def _retry(self, name, fn, *a):
        while True:
            SCHED.point(name)
            try: return fn(*a)
            except sqlite3.OperationalError as e:
                if ("locked" in str(e) or "busy" in str(e)) and not SCHED.giveup:
                    SCHED.point(name+":blocked", blocked=True); continue
                raise
    def execute(self, *a): return self._retry("execute:"+a[0].split()[0], super().execute, *a)
    def executescript(self, *a): return self._retry("executescript", super().executescript, *a)
    def commit(self): return self._retry("commit", super().commit)
orig_connect = sqlite3.connect
def connect(path, **kw):
    kw.pop("timeout", None)
    SCHED.point("connect")
    return orig_connect(path, timeout=0, factory=Conn, **kw)
core.sqlite3.connect = connect
for name in ("exists","unlink","rename"):
    orig = getattr(Path, name)
    def mk(orig, name):
        def f(self, *a, **k):
            if threading.current_thread() is not threading.main_thread() and "t.db" in str(self) or "t_backup" in str(self):
                SCHED.point(name)
            return orig(self, *a, **k)
        return f
    setattr(Path, name, mk(orig, name))

def make_template(d, with_backup):
    global SCHED
    class Dummy:
        def point(self,*a,**k): pass
    SCHED = Dummy()
    db = d/"t.db"
    w = Wtp(db_path=db, quiet=True, quiet_output=True)
    w.add_page("Module:ustring:ustring", 828, USTRING, model="Scribunto")
    w.add_page("Module:m", 828, MOD, model="Scribunto")
    w.add_page("Template:t", 10, "T{{{1}}}")
    w.add_page("P", 0, "{{t|x}} {{#invoke:m|f|y}}")
    w.db_conn.commit()
    if with_backup: w.backup_db()
    w.close_db_conn()

def body(db):
    def b():
        w = Wtp(db_path=db, quiet=True, quiet_output=True)
        w.start_page("P")
        r = w.expand(w.get_page_body("P", 0))
        w.close_db_conn()
        return r
    return b

def run_one(tmpl, prefix, n=2):
    global SCHED
    d = Path(tempfile.mkdtemp(dir="/dev/shm"))
    for f in tmpl.iterdir(): shutil.copy(f, d/f.name)
    s = Sched(n, prefix); SCHED = s
    s.run([body(d/"t.db") for _ in range(n)])
    shutil.rmtree(d)
    return s

def explore(tmpl, bound):
    stack=[[]]; nexec=0; outcomes={}
    while stack:
        prefix = stack.pop()
        s = run_one(tmpl, prefix); nexec+=1
        if nexec % 100 == 0: print("..", nexec, len(stack), len(prefix), len(s.points), flush=True)
        if nexec > 3000: break
        out = (tuple(s.results), tuple(s.errors))
        outcomes[out] = outcomes.get(out,0)+1
        if s.errors != [None]*s.n and out not in outcomes.get("_shown", set()):
            pass
        # preemptions so far
        pre = 0
        costs=[]
        for i,(order,last,states,label) in enumerate(s.points):
            c = s.choices[i]
            running_enabled = last is not None and order[0]==last and states[0]=="ready"
            costs.append(pre)
            if c != 0 and running_enabled: pre += 1
        for i in range(len(prefix), len(s.points)):
            order,last,states,label = s.points[i]
            running_enabled = last is not None and order[0]==last and states[0]=="ready"
            for alt in range(1, len(order)):
                cost = costs[i] + (1 if running_enabled else 0)
                if cost > bound: continue
                stack.append(s.choices[:i]+[alt])
    return nexec, outcomes

import faulthandler; faulthandler.dump_traceback_later(200, exit=True)
if __name__ == "__main__":
    wb = sys.argv[1] == "1"; bound = int(sys.argv[2])
    tmpl = Path(tempfile.mkdtemp(dir="/dev/shm"))
    make_template(tmpl, wb)
    t=time.time()
    s = run_one(tmpl, [])
    print("points in default schedule:", len(s.points), "results", s.results, s.errors, time.time()-t)
    print([p[3] for p in s.points])
    t=time.time()
    nexec, outcomes = explore(tmpl, bound)
    print("executions", nexec, "time", time.time()-t)
    for k,v in outcomes.items(): print(v, k)
    shutil.rmtree(tmpl)
