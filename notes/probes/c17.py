import itertools, collections, time
from wikitextprocessor import Wtp
def run(n, names):
    ctx = Wtp(quiet=True, quiet_output=True)
    bad = collections.Counter(); ex = {}
    cnt = 0
    edges_all = [(i,j) for i in range(n) for j in range(n)]
    for mask in range(1 << len(edges_all)):
        edges = [e for b,e in enumerate(edges_all) if mask >> b & 1]
        succ = {i: set(j for (a,j) in edges if a == i) for i in range(n)}
        for fl in range(1 << n):
            flagged = {i for i in range(n) if fl >> i & 1}
            for red in [None] + [(s,t) for s in range(n) for t in range(n) if s != t]:
                # red=(s,t): add an extra redirect page R -> template t, and R included by s? keep simple: extra page "Template:R" redirect to names[t]
                ctx.db_conn.execute("DELETE FROM pages")
                for i in range(n):
                    ctx.add_page("Template:"+names[i], 10, "body%d" % i)
                if red: ctx.add_page("Template:R", 10, redirect_to="Template:"+names[red[1]])
                ctx.db_conn.commit()
                def clf(w, page, succ=succ, flagged=flagged):
                    t = page.title.removeprefix("Template:")
                    if t == "R": return set(), False
                    i = names.index(t)
                    return {names[j] for j in succ[i]}, i in flagged
                t0 = time.time()
                ctx.analyze_templates(clf)
                # reference
                marked = set(flagged)
                ch = True
                while ch:
                    ch = False
                    for i in range(n):
                        if i not in marked and succ[i] & marked: marked.add(i); ch = True
                want = {"Template:"+names[i] for i in marked}
                if red and red[1] in marked: want.add("Template:R")
                ctx.get_page.cache_clear()
                got = {p.title for p in ctx.get_all_pages([10]) if p.need_pre_expand}
                cnt += 1
                if got != want:
                    k = (tuple(sorted(got-want)), tuple(sorted(want-got)))
                    bad[k]+=1; ex.setdefault(k, (edges, flagged, red))
    ctx.close_db_conn()
    return cnt, bad, ex
for names in (["A","B","C"], ["a b","Ünï","c"]):
    t=time.time()
    cnt, bad, ex = run(3, names)
    print(names, "cases", cnt, "mismatches", sum(bad.values()), time.time()-t)
    for k,v in list(bad.items())[:8]: print(v, k, ex[k])
