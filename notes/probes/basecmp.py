import json, sys, subprocess, xml.etree.ElementTree as ET, os
root = sys.argv[1]
out = "/tmp/probe/junit_%d.xml" % os.getpid()
env = dict(os.environ, PYTHONPATH=root + "/src")
subprocess.run(["/venv/bin/python","-m","pytest","-q","-p","no:cacheprovider","--timeout=900","--continue-on-collection-errors","--junitxml="+out], cwd=root, env=env, stdout=subprocess.DEVNULL, stderr=subprocess.DEVNULL)
passed=set()
for tc in ET.parse(out).getroot().iter("testcase"):
    if not any(ch.tag in ("failure","error","skipped") for ch in tc):
        passed.add(tc.get("classname")+"::"+tc.get("name"))
base=set(json.load(open("/root/.vp/BASELINE.json"))["stable_pass"])
print("passed", len(passed), "baseline", len(base), "missing from baseline:", sorted(base-passed)[:30])
os.remove(out)
