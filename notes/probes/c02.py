import itertools, collections
from wikitextprocessor import Wtp, NodeKind, WikiNode
K = NodeKind
LEVELK = {K.LEVEL1:1,K.LEVEL2:2,K.LEVEL3:3,K.LEVEL4:4,K.LEVEL5:5,K.LEVEL6:6}
MARKS = [m for d in (1,2,3) for m in map("".join, itertools.product("*#", repeat=d))]
LINES = [("h",l) for l in range(1,7)] + [("l",m) for m in MARKS] + [("hr",None), ("t",None)]
def render(doc):
    out=[]
    for i,(k,v) in enumerate(doc):
        if k=="h": out.append("="*v + "H%d" % i + "="*v)
        elif k=="l": out.append(v + "I%d" % i)
        elif k=="hr": out.append("----")
        else: out.append("T%d" % i)
    return "\n".join(out) + "\n"
def ref(doc):
    # returns dict tag -> parent tag for headings, items, text; ROOT = "R"
    parent={}
    secs=[("R",0)]
    lists=[]  # stack of (itemtag, marker)
    for i,(k,v) in enumerate(doc):
        if k=="h":
            lists=[]
            while secs[-1][1] >= v: secs.pop()
            parent["H%d"%i]=secs[-1][0]; secs.append(("H%d"%i, v))
        elif k=="hr":
            lists=[]
            while secs[-1][1] > 2: secs.pop()
            parent["HR%d"%i]=secs[-1][0]
        elif k=="t":
            lists=[]
            parent["T%d"%i]=secs[-1][0]
        else:
            # most recent open item whose marker is a proper prefix
            while lists and not (v.startswith(lists[-1][1]) and len(lists[-1][1]) < len(v)):
                lists.pop()
            parent["I%d"%i]= lists[-1][0] if lists else secs[-1][0]
            lists.append(("I%d"%i, v))
    return parent
def extract(root):
    parent={}
    def tagof(n):
        if n.kind in LEVELK:
            return "".join(x for x in n.largs[0] if isinstance(x,str)).strip() if n.largs else "?"
        return None
    def walk(n, cur, idx=[0]):
        for c in n.children:
            if isinstance(c, str):
                for tok in c.split():
                    if tok.startswith("T"): parent[tok]=cur
                continue
            if c.kind in LEVELK:
                t=tagof(c); parent[t]=cur; walk(c, t)
            elif c.kind==K.HLINE:
                parent.setdefault("HR?", []).append(cur)
            elif c.kind==K.LIST:
                walk(c, cur)
            elif c.kind==K.LIST_ITEM:
                txt="".join(x for x in c.children if isinstance(x,str)).split()
                t=txt[0] if txt else "?"
                parent[t]=cur
                # sarg check
                parent[t+".sarg"]=c.sarg
                walk(c, t)
            else: walk(c, cur)
    walk(root, "R")
    return parent
ctx = Wtp(quiet=True, quiet_output=True)
bad=collections.Counter(); ex={}; n=0
for L in (1,2,3):
    for doc in itertools.product(LINES, repeat=L):
        ctx.start_page("Tt")
        root = ctx.parse(render(doc))
        got = extract(root); want = ref(doc)
        n+=1
        hrs = got.pop("HR?", [])
        whr = [v for k,v in want.items() if k.startswith("HR")]
        g2 = {k:v for k,v in got.items() if not k.endswith(".sarg")}
        w2 = {k:v for k,v in want.items() if not k.startswith("HR")}
        sargs_ok = all(got.get("I%d.sarg"%i)==v for i,(k,v) in enumerate(doc) if k=="l")
        if g2 != w2 or hrs != whr or not sargs_ok:
            diff = tuple(sorted((k, g2.get(k), w2.get(k)) for k in set(g2)|set(w2) if g2.get(k)!=w2.get(k)))
            key = tuple((k if k!="l" else "l") for k,v in doc)
            bad[key]+=1
            if key not in ex: ex[key]=(render(doc), diff, hrs, whr)
print("cases", n, "mismatch", sum(bad.values()))
for k,v in bad.most_common(25): print(v, k, ex[k])
