import itertools, collections
from wikitextprocessor import Wtp, NodeKind, WikiNode
K=NodeKind
CONT = ["x", "{{t|a}}", "[[l|m]]", "'''b'''", "''i''", "<span class=\"c\">s</span>", "a!b", "x y"]
ATTRS = [{}, {"class":"c"}, {"style":"s-1", "id":"i2"}, {"class":"a b"}]
def attrstr(a): return " ".join('%s="%s"' % kv for kv in a.items())
def build(r,c,sep,cap,tattr,rattr,cattr,hdr,cont):
    L=["{|" + (" "+attrstr(tattr) if tattr else "")]
    if cap: L.append("|+ " + (attrstr(cap[1])+" | " if cap[1] else "") + cap[0])
    for i in range(r):
        L.append("|-" + (" "+attrstr(rattr) if rattr else ""))
        cells=[]
        for j in range(c):
            h = hdr=="row0" and i==0 or hdr=="col0" and j==0
            cells.append((h, (attrstr(cattr)+" | " if cattr else "") + cont(i,j)))
        if sep=="nl":
            for h,t in cells: L.append(("! " if h else "| ")+t)
        else:
            # inline: group consecutive same-kind cells
            line=""; 
            for idx,(h,t) in enumerate(cells):
                if idx==0: line = ("! " if h else "| ")+t
                else:
                    ph = cells[idx-1][0]
                    if h==ph: line += (" !! " if h else " || ")+t
                    else:
                        L.append(line); line=("! " if h else "| ")+t
            L.append(line)
    L.append("|}")
    return "\n".join(L)+"\n"
def txt(n):
    if isinstance(n,str): return n
    return ctx.node_to_wikitext(n)
ctx = Wtp(quiet=True, quiet_output=True)
bad=collections.Counter(); ex={}; n=0
def rec(k, src, det):
    bad[k]+=1
    if k not in ex or len(src)<len(ex[k][0]): ex[k]=(src,det)
for r,c in itertools.product((1,2,3),(1,2,3)):
  for sep in ("nl","inline"):
    for cap in (None, ("Cap",{}), ("Cap",{"class":"k"})):
      for tattr, rattr, cattr in itertools.product(ATTRS[:3], ATTRS[:2], ATTRS):
        for hdr in ("none","row0","col0"):
          for a in range(len(CONT)):
            cont = lambda i,j: CONT[(a+i+2*j)%len(CONT)]
            src = build(r,c,sep,cap,tattr,rattr,cattr,hdr,cont)
            ctx.start_page("Tt"); root = ctx.parse(src); n+=1
            ch = [x for x in root.children if not (isinstance(x,str) and not x.strip())]
            if len(ch)!=1 or not isinstance(ch[0],WikiNode) or ch[0].kind!=K.TABLE: rec("not-one-table", src, str(root)[:200]); continue
            t=ch[0]
            if t.attrs != tattr: rec("table-attrs", src, t.attrs)
            kids=[x for x in t.children if not (isinstance(x,str) and not x.strip())]
            caps=[x for x in kids if isinstance(x,WikiNode) and x.kind==K.TABLE_CAPTION]
            rows=[x for x in kids if isinstance(x,WikiNode) and x.kind==K.TABLE_ROW]
            if len(caps)+len(rows)!=len(kids): rec("stray-in-table", src, str(kids)[:200])
            if (1 if cap else 0)!=len(caps): rec("caption-count", src, len(caps))
            elif cap:
                if caps[0].attrs!=cap[1]: rec("caption-attrs", src, caps[0].attrs)
                if "".join(map(txt,caps[0].children)).strip()!="Cap": rec("caption-text", src, caps[0].children)
            if len(rows)!=r: rec("row-count", src, len(rows)); continue
            for i,row in enumerate(rows):
                if row.attrs!=rattr: rec("row-attrs", src, row.attrs)
                cells=[x for x in row.children if not (isinstance(x,str) and not x.strip())]
                if len(cells)!=c or not all(isinstance(x,WikiNode) for x in cells): rec("cell-count", src, str(cells)[:200]); continue
                for j,cell in enumerate(cells):
                    h = hdr=="row0" and i==0 or hdr=="col0" and j==0
                    if cell.kind != (K.TABLE_HEADER_CELL if h else K.TABLE_CELL): rec("cell-kind", src, (i,j,cell.kind.name))
                    if cell.attrs != cattr: rec("cell-attrs", src, (i,j,cell.attrs))
                    got="".join(map(txt,cell.children)).strip()
                    if got != cont(i,j): rec("cell-text", src, (i,j,got,cont(i,j)))
print("cases", n, dict(bad))
for k,v in ex.items(): print("==",k, repr(v[0]), v[1])
