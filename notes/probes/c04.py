import itertools, collections, sys, re
from wikitextprocessor import Wtp
ATOMS = ["x", " x", "x ", " x y ", "", "\nx", "*x", "x\n"]
NAMES = ["1", "k", "2"]
# AST: ("T", s) | ("P", name, default|None) | ("C", tpl, [(key|None, E)...]) | ("IF", c, a, b) | ("SEQ", [E..])
def render(e):
    t = e[0]
    if t == "T": return e[1]
    if t == "P": return "{{{" + e[1] + ("|" + render(e[2]) if e[2] is not None else "") + "}}}"
    if t == "C": return "{{" + e[1] + "".join("|" + ((k + "=") if k is not None else "") + render(v) for k, v in e[2]) + "}}"
    if t == "IF": return "{{#if:" + render(e[1]) + "|" + render(e[2]) + "|" + render(e[3]) + "}}"
    if t == "SEQ": return "".join(render(x) for x in e[1])
def addnl(s): return "\n" + s if s.startswith(("*", ";", ":", "#", "{|")) else s
def ev(e, frame, lib):
    t = e[0]
    if t == "T": return e[1]
    if t == "SEQ": return "".join(ev(x, frame, lib) for x in e[1])
    if t == "P":
        k = e[1].strip()
        key = int(k) if k.isdigit() and int(k) > 0 else k
        if frame is not None and key in frame: return frame[key]
        if e[2] is not None: return ev(e[2], frame, lib)
        return "{{{" + k + "}}}"
    if t == "IF":
        c = ev(e[1], frame, lib).strip()
        return addnl(ev(e[2] if c else e[3], frame, lib).strip())
    if t == "C":
        args = {}; num = 1
        for k, v in e[2]:
            val = ev(v, frame, lib)
            if k is None:
                args[num] = val; num += 1
            else:
                kk = k.strip(); kk = int(kk) if kk.isdigit() and int(kk) > 0 else kk
                args[kk] = val.strip()
        if e[1] not in lib: return addnl("[[:Template:" + e[1] + "]]")
        return addnl(ev(lib[e[1]], args, lib))
def exprs(size, depth, inbody):
    # enumerate ASTs with exactly `size` nodes
    if size == 1:
        for a in ATOMS: yield ("T", a)
        if inbody:
            for n in NAMES: yield ("P", n, None)
        return
    if depth == 0: return
    if inbody:
        for n in NAMES:
            for d in exprs(size-1, depth-1, inbody): yield ("P", n, d)
    # calls with 0..2 args
    for tpl in (["b", "missing"] if True else []):
        if size == 1: pass
        # size-1 distributed among args
        for nargs in (0,1,2):
            if nargs == 0:
                if size == 1: yield ("C", tpl, [])
                continue
            for split in itertools.product(range(1, size), repeat=nargs):
                if sum(split) != size-1: continue
                for keys in itertools.product([None, "k", " k ", "1"], repeat=nargs):
                    for vals in itertools.product(*[list(exprs(s, depth-1, inbody)) for s in split]):
                        yield ("C", tpl, list(zip(keys, vals)))
    for split in itertools.product(range(1, size), repeat=3):
        if sum(split) != size-1: continue
        for vals in itertools.product(*[list(exprs(s, depth-1, inbody)) for s in split]):
            yield ("IF",) + vals
def seqs(size, depth, inbody):
    yield from exprs(size, depth, inbody)
    # sequences of two
    for a in range(1, size):
        for x in exprs(a, depth, inbody):
            for y in exprs(size-a, depth, inbody):
                yield ("SEQ", [x, y])
ctx = Wtp(quiet=True, quiet_output=True)
n=0; bad=collections.Counter(); ex={}
BODIES = [b for s in (1,2) for b in seqs(s, 2, True) if "missing" not in render(b) and "{{b" not in render(b)]
PAGES = [p for s in (1,2,3) for p in seqs(s, 2, False)]
print(len(BODIES), len(PAGES))
import random
for bi, body in enumerate(BODIES):
    ctx.add_page("Template:b", 10, render(body))
    ctx.get_page.cache_clear()
    lib = {"b": body}
    for page in PAGES:
        txt = render(page)
        if "{{b" not in txt and bi > 0: continue
        ctx.start_page("Tt")
        try: got = ctx.expand(txt)
        except Exception as e: got = "EXC "+repr(e)
        want = ev(page, None, lib)
        n += 1
        if got != want:
            key = (render(body) if "{{b" in txt else "-",)
            bad[key]+=1
            if len(ex) < 40 and key not in ex: ex[key] = (txt, got, want)
print("cases", n, "mismatch", sum(bad.values()), "distinct bodies w/ mismatch", len(bad))
for k,(t,g,w) in list(ex.items())[:40]: print(repr(k[0]), "| page", repr(t), "| got", repr(g), "| want", repr(w))
