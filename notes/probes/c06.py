import collections, sys
from wikitextprocessor import Wtp
import lupa.lua51 as lupa
USTRING = "local u = {} for k, v in pairs(string) do u[k] = v end return u"
class Rec(collections.deque):
    log = None
    def append(self, x):
        self.log.append(x); super().append(x)
ctx = Wtp(quiet=True, quiet_output=True)
envs=[]; frames=[]
e = Rec(); e.log = envs; ctx.lua_env_stack = e
f = Rec(); f.log = frames; ctx.lua_frame_stack = f
ctx.add_page("Module:ustring:ustring", 828, USTRING, model="Scribunto")
ctx.add_page("Module:probe", 828, """
local export = {}
function export.f(frame) return "x" end
return export
""", model="Scribunto")
ctx.add_page("Template:t", 10, "{{#invoke:probe|f|a|b=c}}")
ctx.start_page("Tt")
print(ctx.expand("{{t|1|k=v}}"))
print(len(envs), len(frames))
env, frame = envs[-1], frames[-1]
lua = ctx.lua
g = lua.globals()
print("env==hostG", env == g, "host io", g.io is not None, "env.io", env.io)
# privileged BFS helper in host Lua
helper = lua.execute("""
local function bfs(roots, forbidden, reqnames, sandbox_require)
  local seen, queue, parent, edge = {}, {}, {}, {}
  local nobj, nedge = 0, 0
  local hits = {}
  local pyobjs = {}
  local function visit(v, from, label)
    local t = type(v)
    if t ~= "table" and t ~= "function" and t ~= "userdata" and t ~= "thread" then return end
    nedge = nedge + 1
    if seen[v] then return end
    seen[v] = true; nobj = nobj + 1
    parent[v] = from; edge[v] = label
    if forbidden[v] then hits[#hits+1] = {forbidden[v], v} end
    if t == "userdata" then pyobjs[#pyobjs+1] = v end
    queue[#queue+1] = v
  end
  local function path(v)
    local parts = {}
    while v ~= nil and edge[v] do table.insert(parts, 1, edge[v]); v = parent[v] end
    return table.concat(parts, "")
  end
  for i, r in ipairs(roots) do visit(r, nil, "root" .. i) end
  local smt = getmetatable("")
  visit(smt, nil, "getmetatable('')")
  for _, n in ipairs(reqnames) do
    local ok, m = pcall(sandbox_require, n)
    if ok then visit(m, nil, "require('" .. n .. "')") end
  end
  local i = 1
  while i <= #queue do
    local v = queue[i]; i = i + 1
    if type(v) == "table" then
      for k, x in next, v do
        visit(k, v, "<key>")
        visit(x, v, "[" .. tostring(k) .. "]")
      end
    end
    if type(v) == "table" or type(v) == "userdata" then
      local ok, mt = pcall(getmetatable, v)
      if ok and mt ~= nil then visit(mt, v, ":getmetatable()") end
    end
  end
  local out = {}
  for _, h in ipairs(hits) do out[#out+1] = h[1] .. " via " .. path(h[2]) end
  return nobj, nedge, out, pyobjs, path
end
return bfs
""")
forbidden = lua.eval("""
(function()
  local f = {}
  f[_G] = "host _G"; f[io] = "io"; f[os] = "os"; f[os.execute]="os.execute"; f[os.getenv]="os.getenv"; f[os.remove]="os.remove"; f[os.exit]="os.exit"
  f[package]="package"; f[package.loadlib]="package.loadlib"; f[debug]="debug"; f[debug.getregistry]="debug.getregistry"; f[debug.getupvalue]="debug.getupvalue"; f[debug.sethook]="debug.sethook"
  f[load]="load"; f[loadstring]="loadstring"; f[dofile]="dofile"; f[loadfile]="loadfile"; f[setfenv]="setfenv"; f[getfenv]="getfenv"
  f[python]="python"; f[python.builtins]="python.builtins"
  f[io.open]="io.open"; f[io.popen]="io.popen"
  return f
end)()
""")
reqnames = [str(k) for k in g.package.loaded.keys()] + [str(k) for k in g.package.preload.keys()] + ["mw","mw_text","mw_title","_sandbox_phase1","_sandbox_phase2","string","debug"]
nobj, nedge, hits, pyobjs, pathfn = helper(lua.table_from([env, frame]), forbidden, lua.table_from(reqnames), env.require)
print("objects", nobj, "edges", nedge)
for h in hits.values(): print("HIT", h)
print("python objects reachable:", len(pyobjs))
import functools, types
ALLOWED = (str,int,float,bool,type(None))
seen=set(); q=[]
for o in pyobjs.values():
    q.append((o, pathfn(o)))
bad=[]
while q:
    o, p = q.pop(0)
    if id(o) in seen: continue
    seen.add(id(o))
    if isinstance(o, ALLOWED): continue
    if isinstance(o, tuple):
        for i,x in enumerate(o): q.append((x, p+f"[{i}]"))
        continue
    if isinstance(o, types.FunctionType):
        # plain function: attributes all dunder -> filtered
        names = [n for n in dir(o) if not n.startswith("_")]
        if names: bad.append((p, "function attrs "+str(names)))
        continue
    bad.append((p, type(o).__name__))
    for n in dir(o):
        if n.startswith("_"): continue
        try: x = getattr(o, n)
        except Exception: continue
        if len(seen) < 3000: q.append((x, p+"."+n))
print("python-side violations:", len(bad))
for b in bad[:25]: print("  ", b)
