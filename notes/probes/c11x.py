import os, sys, json, shutil, tempfile, hashlib, time, collections
from pathlib import Path
from wikitextprocessor import Wtp
from wikitextprocessor.dumpparser import analyze_and_overwrite_pages
BASE = Path(tempfile.mkdtemp(dir="/dev/shm"))
def fp(d):
    h = hashlib.sha1()
    for f in sorted(os.listdir(d)):
        if f == "ov.json": continue
        h.update(f.encode()); h.update(open(d/f,"rb").read())
    return h.hexdigest()
def content(d):
    w = Wtp(db_path=d/"t.db", quiet=True, quiet_output=True)
    integ = [r[0] for r in w.db_conn.execute("PRAGMA integrity_check")]
    pages = sorted((p.title, p.body) for p in w.get_all_pages())
    w.close_db_conn()
    return integ, pages
S0 = BASE/"s0"; S0.mkdir()
w = Wtp(db_path=S0/"t.db", quiet=True, quiet_output=True)
for i in range(5): w.add_page(f"P{i}", 0, "orig%d" % i)
w.add_page("Template:a", 10, "orig")
w.db_conn.commit(); w.close_db_conn()
(S0/"ov.json").write_text(json.dumps({"P1": {"namespace_id":0, "body":"NEW1"}, "P2": {"namespace_id":0,"body":"NEW2"}}))
ORIG = content(S0)[1]
print("orig", ORIG)
work = BASE/"work"; shutil.copytree(S0, work)
images = {}   # fp -> (event index, label, backup_done)
events = []
state = {"backup_done": False, "n": 0}
def tr(frame, ev, arg):
    fn = frame.f_code.co_filename
    if "wikitextprocessor/core.py" in fn or "wikitextprocessor/dumpparser.py" in fn:
        if ev == "line":
            state["n"] += 1
            name = frame.f_code.co_name
            if name in ("<genexpr>", "init_namespace_data", "init_localization_data"): return tr
            h = fp(work)
            if h not in images:
                img = BASE/("img%d" % len(images)); shutil.copytree(work, img)
                images[h] = (state["n"], "%s:%d" % (name, frame.f_lineno), state["backup_done"], img)
        if ev == "return" and frame.f_code.co_name == "backup_db": state["backup_done"] = True
        return tr
    return None
t=time.time()
sys.settrace(tr)
w = Wtp(db_path=work/"t.db", quiet=True, quiet_output=True)
analyze_and_overwrite_pages(w, [work/"ov.json"], True, None)
w.close_db_conn()
w2 = Wtp(db_path=work/"t.db", quiet=True, quiet_output=True)   # restore
w2.close_db_conn()
sys.settrace(None)
print("line events", state["n"], "distinct images", len(images), "time", round(time.time()-t,2))
for h,(n,label,bd,img) in images.items():
    integ, pages = content(img)
    ok = integ == ["ok"] and pages == ORIG
    print(n, label, "backup_done" if bd else "", "OK" if ok else "VIOLATION", "" if ok else (integ, pages[:3]))
shutil.rmtree(BASE)
