import time, itertools, sys, collections, traceback
from multiprocessing import Pool
from wikitextprocessor import Wtp, NodeKind, WikiNode
from wikitextprocessor.common import MAGIC_NOWIKI, MAGIC_LAST
toks = ["''","'''","\n","{|","|}","|-","|","||","!","*","#",":",";","==","a"," ","[[","]]","{{","}}","<b>","</b>","<pre>","</pre>","[","]","http://x.y","----","<ref>","</ref>", "<nowiki>","</nowiki>","<!--","-->","__NOTOC__","{{{","}}}","=","<br>","|+", "<li>", "</li>", "<table>", "<td>", "[http://x.y", "{||", "!!", "<nowiki/>", "x=1"]
K = NodeKind
ARGK = (K.LINK, K.TEMPLATE, K.TEMPLATE_ARG, K.PARSER_FN, K.URL)
def magic(s): return any(MAGIC_NOWIKI <= ord(c) <= MAGIC_LAST for c in s)
def chk_list(lst, where, out):
    prev_str = False
    for x in lst:
        if isinstance(x, str):
            if x == "": out.append(where+":emptystr")
            if prev_str: out.append(where+":adjstr")
            if magic(x): out.append(where+":magic")
            prev_str = True
        elif isinstance(x, WikiNode):
            prev_str = False
        else:
            out.append(where+":badtype")
def wf(node, parent, out):
    k = node.kind
    chk_list(node.children, k.name+".children", out)
    if k == K.LIST_ITEM and (parent is None or parent.kind != K.LIST): out.append("LIST_ITEM under "+(parent.kind.name if parent else "None"))
    if k in (K.TABLE_ROW, K.TABLE_CAPTION) and parent.kind != K.TABLE: out.append(k.name+" under "+parent.kind.name)
    if k in (K.TABLE_CELL, K.TABLE_HEADER_CELL) and parent.kind != K.TABLE_ROW: out.append(k.name+" under "+parent.kind.name)
    if k == K.LIST:
        for c in node.children:
            if not (isinstance(c, WikiNode) and c.kind == K.LIST_ITEM): out.append("LIST child not item: " + (c.kind.name if isinstance(c, WikiNode) else "str"))
    if k in ARGK:
        if k != K.LINK and node.children: out.append(k.name+" has children")
        if not isinstance(node.largs, list) or not all(isinstance(a, list) for a in node.largs): out.append(k.name+" largs shape")
        else:
            if not node.largs: out.append(k.name+" empty largs")
            for a in node.largs: chk_list(a, k.name+".largs", out)
    elif k.name.startswith("LEVEL"):
        if len(node.largs) != 1: out.append("LEVEL largs len %d" % len(node.largs))
        for a in node.largs: chk_list(a, "LEVEL.largs", out)
    else:
        if node.largs and k != K.ROOT: out.append(k.name+" has largs")
    if k in (K.LIST, K.LIST_ITEM, K.HTML, K.MAGIC_WORD):
        if not node.sarg: out.append(k.name+" empty sarg")
    elif node.sarg: out.append(k.name+" has sarg")
    if magic(node.sarg): out.append("sarg magic")
    for kk, v in node.attrs.items():
        if not isinstance(kk, str) or not isinstance(v, str): out.append("attrs type")
        elif magic(kk) or magic(v): out.append("attrs magic")
    if node.definition is not None: chk_list(node.definition, "definition", out)
    if node.temp_head is not None: out.append("temp_head left")
    for lst in [node.children] + (node.largs if isinstance(node.largs, list) else []) + ([node.definition] if node.definition else []):
        for c in lst:
            if isinstance(c, WikiNode): wf(c, node, out)
L=int(sys.argv[1])
def work(first):
    ctx = Wtp(quiet=True, quiet_output=True)
    errs = collections.Counter(); ex = {}
    n=0
    for seq in itertools.product(toks, repeat=L-1):
        s = first + "".join(seq)
        ctx.start_page("Tt")
        try:
            root = ctx.parse(s)
            out=[]
            if root.kind != K.ROOT: out.append("notroot")
            if ctx.parser_stack: out.append("stack left")
            if ctx.begline_disable_counter: out.append("begline ctr")
            wf(root, None, out)
            for k in set(out):
                errs[k]+=1; 
                if k not in ex or len(s) < len(ex[k]): ex[k]=s
        except Exception as e:
            k = type(e).__name__ + ":" + str(e)[:60] + " @ " + traceback.extract_tb(e.__traceback__)[-1].name
            errs[k]+=1
            ex.setdefault(k, s)
        n+=1
    ctx.close_db_conn()
    return n, errs, ex
if __name__ == "__main__":
    t=time.time()
    with Pool(16) as p:
        res = p.map(work, toks)
    tot = sum(r[0] for r in res)
    errs = collections.Counter(); ex={}
    for r in res:
        errs.update(r[1])
        for k,v in r[2].items():
            if k not in ex or len(v) < len(ex[k]): ex[k]=v
    print("L",L,"n",tot,"time",time.time()-t)
    for k,v in errs.most_common(): print(v, k, repr(ex[k]))
