import bz2, time, tempfile, os, itertools, collections
from xml.sax.saxutils import escape, quoteattr
from wikitextprocessor import Wtp
from wikitextprocessor.dumpparser import parse_dump_xml, add_default_templates
def dump(pages):
    out=['<mediawiki xmlns="http://www.mediawiki.org/xml/export-0.10/" version="0.10" xml:lang="en">\n<siteinfo><sitename>W</sitename></siteinfo>\n']
    for i,p in enumerate(pages):
        out.append("<page>\n<title>%s</title>\n<ns>%d</ns>\n<id>%d</id>\n" % (escape(p["title"]), p["ns"], i+1))
        if p.get("redirect") is not None: out.append("<redirect title=%s />\n" % quoteattr(p["redirect"]))
        out.append("<revision><id>%d</id><model>%s</model><format>text/x-wiki</format>" % (i+100, p["model"]))
        out.append('<text bytes="%d" xml:space="preserve">%s</text></revision>\n</page>\n' % (len(p["body"]), escape(p["body"])))
    out.append("</mediawiki>\n")
    return "".join(out).encode("utf-8")
d = tempfile.mkdtemp(dir="/dev/shm")
ctx = Wtp(quiet=True, quiet_output=True)
NS = {0:"", 10:"Template:", 828:"Module:", 14:"Category:", 100:"Appendix:", 4:"Wiktionary:"}
titles = ["Foo", "foo bar", "Ünï/sub", "A:B", "Foo/documentation", "Foo/testcases/x", "Main:Foo", "a&b<c>\"d\"", "!", "="]
bodies = ["x", " lead", "trail \n", "\n\nblank\n\n", "a&amp;b <tag> ]]> &", "", "<noinclude>doc</noinclude>body<includeonly>inc</includeonly>", "<!-- c -->t", "a\r\nb", "\tt"]
models = ["wikitext","Scribunto","json","css","javascript","sanitized-css"]
bad=collections.Counter(); ex={}; n=0
t=time.time()
sel = {0,10,828,14}
for ns, t0, b, m in itertools.product(NS, titles, bodies, models):
    p = {"title": NS[ns]+t0, "ns": ns, "body": b, "model": m}
    path = os.path.join(d, "x.xml.bz2")
    open(path,"wb").write(bz2.compress(dump([p])))
    ctx.db_conn.execute("DELETE FROM pages"); ctx.get_page.cache_clear()
    parse_dump_xml(ctx, path, sel)
    got = [(x.title, x.namespace_id, x.body, x.model, x.redirect_to) for x in ctx.get_all_pages()]
    keep = ns in sel and not t0.endswith("/documentation") and "/testcases" not in t0 and m in ("wikitext","Scribunto","json")
    body = b
    if ns == 10:
        import re
        body = re.sub(r"(?s)<!--.*?-->", "", body); body = re.sub(r"(?is)<noinclude\s*>.*?</noinclude\s*>", "", body); body = re.sub(r"(?is)</?includeonly\s*>", "", body)
    want = [(p["title"], ns, body, m, None)] if keep else []
    n+=1
    if got != want:
        k = ("title" if got and want and got[0][0]!=want[0][0] else "body" if got and want and got[0][2]!=want[0][2] else "presence" if bool(got)!=bool(want) else "other")
        bad[k]+=1
        if k not in ex: ex[k]=(p, got, want)
    if n == 300: print("rate", (time.time()-t)/n*1e3, "ms/dump", flush=True)
print("cases", n, dict(bad), time.time()-t)
for k,v in ex.items(): print(k, v)
