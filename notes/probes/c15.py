import itertools, collections, html
from wikitextprocessor import Wtp, NodeKind, WikiNode
toks = ["''","'''","\n","{|","|}","|-","|","||","!","*","#",":",";","==","a"," ","[[","]]","{{","}}","<b>","</b>","<pre>","</pre>","[","]","http://x.y","----","<ref>","</ref>", "<nowiki>","<!--","-->","__NOTOC__","{{{","}}}","=","<br>","|+","{{t}}","{{t|x}}","[[l]]","_","\"","<nowiki/>"]
MAP = {"=":"&equals;","<":"&lt;",">":"&gt;","*":"&ast;","#":"&num;",":":"&colon;","!":"&excl;","|":"&vert;","[":"&lsqb;","]":"&rsqb;","{":"&lbrace;","}":"&rbrace;",'"':"&quot;","'":"&apos;","_":"&#95;"}
def q(c): return "".join(MAP.get(ch, ch) for ch in c)
ctx = Wtp(quiet=True, quiet_output=True)
ctx.add_page("Template:t", 10, "EXPANDED")
ctx.add_page("Template:id", 10, "{{{1}}}")
bad=collections.Counter(); ex={}; n=0
def rec(k, c, detail):
    bad[k]+=1
    if k not in ex or len(c)<len(ex[k][0]): ex[k]=(c, detail)
for L in (1,2,3):
    for seq in itertools.product(toks, repeat=L):
        c="".join(seq)
        if "</nowiki" in c.lower(): continue
        n+=1
        w = "<nowiki>"+c+"</nowiki>"
        ctx.start_page("Tt")
        got = ctx.expand(w)
        want = q(c) if c else "<nowiki/>"
        if got != want: rec("expand_top", c, (got, want))
        elif c and html.unescape(got) != c: rec("decode", c, got)
        ctx.start_page("Tt")
        root = ctx.parse(w)
        if c and not (len(root.children)==1 and isinstance(root.children[0], str) and root.children[0]==q(c)):
            rec("parse_top", c, str(root))
        # template argument
        ctx.start_page("Tt")
        got = ctx.expand("{{id|"+w+"}}")
        if got != want and not (c == "" ): rec("expand_arg", c, (got, want))
        ctx.start_page("Tt")
        got = ctx.expand("[[x|"+w+"]]")
        if got != "[[x|"+want+"]]": rec("expand_link", c, (got, want))
print("cases", n, dict(bad))
for k,v in ex.items(): print(k, repr(v[0]), v[1])
