import itertools, collections, json
from wikitextprocessor import Wtp, NodeKind
ATOMS = ["a", " a", "a ", " a ", "\na", "a\nb", "k=v", " k = v ", "k=\nv", "2=v", "02=v", "k= v w ", "x y"]
ECHO = r"""
local e = {}
function e.dump(frame)
  local keys = {}
  for k, v in pairs(frame.args) do keys[#keys+1] = k end
  table.sort(keys, function(a,b) return tostring(a) < tostring(b) end)
  local out = {}
  for _, k in ipairs(keys) do out[#out+1] = type(k) .. ":" .. tostring(k) .. "=<" .. frame.args[k] .. ">" end
  return table.concat(out, ";;")
end
return e
"""
ctx = Wtp(quiet=True, quiet_output=True)
ctx.add_page("Module:ustring:ustring", 828, "local u = {} for k, v in pairs(string) do u[k] = v end return u", model="Scribunto")
ctx.add_page("Module:echo", 828, ECHO, model="Scribunto")
ctx.add_page("Template:t", 10, "T")
def names_distinct(lst):
    keys=[]; num=1
    for a in lst:
        if "=" in a:
            k=a.split("=",1)[0].strip()
            k = int(k) if k.isdigit() and int(k)>0 else k
        else:
            k=num; num+=1
        keys.append(k)
    return len(set(keys))==len(keys)
def ref(lst):
    d={}; num=1
    for a in lst:
        if "=" in a:
            k,v=a.split("=",1); k=k.strip(); v=v.strip()
            k = int(k) if k.isdigit() and int(k)>0 else k
        else:
            k=num; num+=1; v=a
        d[k]=v
    return d
bad=collections.Counter(); ex={}; n=0
for L in (1,2,3):
    for lst in itertools.product(ATOMS, repeat=L):
        if not names_distinct(lst): continue
        txt = "|".join(lst)
        ctx.start_page("Tt")
        root = ctx.parse("{{t|%s}}" % txt)
        node = root.children[0]
        v1 = dict(node.template_parameters) if hasattr(node, "template_parameters") else None
        cap={}
        def tf(name, ht): cap.update(ht); return None
        ctx.start_page("Tt"); ctx.expand("{{t|%s}}" % txt, template_fn=tf)
        v2 = dict(cap)
        ctx.start_page("Tt"); out = ctx.expand("{{#invoke:echo|dump|%s}}" % txt)
        v3={}
        for part in out.split(";;"):
            if not part: continue
            typ, rest = part.split(":",1); k, v = rest.split("=<",1); v=v[:-1]
            v3[int(k) if typ=="number" else k]=v
        r = ref(lst); n+=1
        tags = []
        if v1 != r: tags.append("parser")
        if v2 != r: tags.append("expander")
        if v3 != r: tags.append("lua")
        if tags:
            key=tuple(tags); bad[key]+=1
            if key not in ex or len(txt)<len(ex[key][0]): ex[key]=(txt, v1, v2, v3, r)
print("cases", n, dict(bad))
for k,v in ex.items(): print(k, *map(repr, v), sep="\n   ")
