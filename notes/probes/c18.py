import itertools, math, collections
from wikitextprocessor import Wtp
# precedence levels (higher binds tighter), all binary left-assoc
BIN = {"e":9, "^":7, "*":6, "/":6, "div":6, "mod":6, "+":5, "-":5, "round":4, "=":3, "!=":3, "<>":3, "<":3, ">":3, "<=":3, ">=":3, "and":2, "or":1}
UN_SIGN = {"-":9, "+":9}           # same level as binary e, applied to the following unary/atom
UN_FN = {"not":8,"ceil":8,"trunc":8,"floor":8,"abs":8,"sqrt":8,"exp":8,"ln":8,"sin":8,"cos":8,"tan":8,"acos":8,"asin":8,"atan":8}
ATOMS = ["2","3","0.5"]
def fold(e):
    if e[0]=="n": return float(e[1]) if "." in e[1] else int(e[1])
    if e[0]=="u":
        x=fold(e[2]); op=e[1]
        if op=="-": return -x
        if op=="+": return x
        if op=="not": return int(not x)
        if op=="ceil": return math.ceil(x)
        if op=="trunc": return math.trunc(x)
        if op=="floor": return math.floor(x)
        if op=="abs": return abs(x)
        return getattr(math, {"ln":"log"}.get(op,op))(x)
    a=fold(e[2]); b=fold(e[3]); op=e[1]
    if op=="e": return a*10**b if isinstance(b,int) and b>=0 and isinstance(a,int) else a*math.pow(10,b)
    if op=="^": return math.pow(a,b)
    if op=="*": return a*b
    if op in ("/","div"): return a/b
    if op=="mod": return a%b
    if op=="+": return a+b
    if op=="-": return a-b
    if op=="round": return round(a,b)
    if op=="=": return int(a==b)
    if op in ("!=","<>"): return int(a!=b)
    if op=="<": return int(a<b)
    if op==">": return int(a>b)
    if op=="<=": return int(a<=b)
    if op==">=": return int(a>=b)
    if op=="and": return 1 if a and b else 0
    if op=="or": return 1 if a or b else 0
def prec(e):
    if e[0]=="n": return 100
    if e[0]=="u": return UN_SIGN.get(e[1]) or UN_FN[e[1]]
    return BIN[e[1]]
def rmin(e):
    if e[0]=="n": return e[1]
    if e[0]=="u":
        p=prec(e); s=rmin(e[2])
        # operand must bind at least as tight as this operator level
        if prec(e[2]) < p: s="("+s+")"
        return e[1]+" "+s
    p=BIN[e[1]]; l=rmin(e[2]); r=rmin(e[3])
    if prec(e[2]) < p: l="("+l+")"
    if prec(e[3]) <= p: r="("+r+")"
    return l+" "+e[1]+" "+r
def rfull(e):
    if e[0]=="n": return e[1]
    if e[0]=="u": return "("+e[1]+" "+rfull(e[2])+")"
    return "("+rfull(e[2])+" "+e[1]+" "+rfull(e[3])+")"
def fmt(v):
    if isinstance(v,float) and v==math.floor(v): return str(int(v))
    return str(v)
def gen(depth):
    if depth==0:
        for a in ATOMS: yield ("n",a)
        return
    yield from gen(depth-1)
    for op in list(UN_SIGN)+list(UN_FN):
        for x in gen(depth-1): yield ("u",op,x)
    for op in BIN:
        for x in gen(depth-1):
            for y in gen(depth-1): yield ("b",op,x,y)
ctx = Wtp(quiet=True, quiet_output=True); ctx.start_page("Tt")
bad=collections.Counter(); ex={}; n=0; skipped=0
seen=set()
for e in gen(2):
    try: want=fmt(fold(e))
    except Exception: skipped+=1; continue
    if "nan" in want or "inf" in want: skipped+=1; continue
    for kind,txt in (("min",rmin(e)),("full",rfull(e))):
        if (txt) in seen: continue
        seen.add(txt)
        ctx.start_page("Tt")
        try: got=ctx.expand("{{#expr:"+txt+"}}")
        except Exception as ex_: got="EXC "+type(ex_).__name__
        n+=1
        if got!=want:
            try: close = abs(float(got)-float(want))<1e-9
            except Exception: close=False
            if close: continue
            ops=tuple(sorted(set(x for x in txt.replace("("," ").replace(")"," ").split() if not x[0].isdigit())))
            k=(kind,ops)
            bad[k]+=1
            if k not in ex or len(txt)<len(ex[k][0]): ex[k]=(txt,got,want)
print("cases",n,"skipped(ill-defined)",skipped,"mismatch",sum(bad.values()),"classes",len(bad))
for k,v in sorted(ex.items(), key=lambda kv: len(kv[1][0]))[:40]: print(k, v)
