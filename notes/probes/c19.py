import itertools, collections
from wikitextprocessor import Wtp, NodeKind, WikiNode
K=NodeKind
def dump(n):
    if isinstance(n,str): return ("s", n)
    kids=[]
    def norm(lst):
        out=[]
        for c in lst:
            d=dump(c)
            if d[0]=="s":
                if out and out[-1][0]=="s": out[-1]=("s", out[-1][1]+d[1])
                else: out.append(d)
            else: out.append(d)
        # strip whitespace at boundaries & drop empty strings
        res=[]
        for i,d in enumerate(out):
            if d[0]=="s":
                s=d[1]
                if i==0: s=s.lstrip()
                if i==len(out)-1: s=s.rstrip()
                # whitespace adjacent to block nodes
                s2=" ".join(s.split()) if s.strip() else ""
                if s.strip()=="" : 
                    continue
                res.append(("s", s.strip() if True else s))
            else: res.append(d)
        return tuple(res)
    return (n.kind.name, n.sarg, tuple(norm(a) for a in n.largs), tuple(sorted(n.attrs.items())), norm(n.children), norm(n.definition) if n.definition else None)
INL = ["x", "'''b'''", "''i''", "[[a|b]]", "[[a]]", "{{t|a|k=v}}", "{{#if:x|y|z}}", "<span class=\"c\">s</span>", "<br>", "[http://x.y z]", "a [[ b ]] c".replace("[[ b ]]","[<nowiki/>[b]<nowiki/>]"), "{{{p|d}}}", "<b>x</b>", "http://x.y/z", "<ref name=\"n\">r</ref>", "__NOTOC__"]
BLK = ["%s\n", "==%s==\n", "===%s===\n", "*%s\n", "*%s\n**%s\n", "#%s\n#%s\n", ";%s:%s\n", "{|\n|%s\n|}\n", "{| class=\"c\"\n|+ %s\n|-\n! %s !! %s\n|-\n| style=\"s\" | %s || %s\n|}\n", "----\n", " %s\n", "<div>%s</div>\n", "<pre>%s</pre>\n"]
ctx = Wtp(quiet=True, quiet_output=True)
bad=collections.Counter(); ex={}; n=0
docs=[]
for b in BLK:
    k=b.count("%s")
    for inl in INL:
        docs.append(b % ((inl,)*k) if k else b)
docs2 = [a+b for a in docs[::7] for b in docs[::5]]
for d in docs+docs2:
    ctx.start_page("Tt")
    t1=ctx.parse(d); w1=ctx.node_to_wikitext(t1)
    ctx.start_page("Tt")
    t2=ctx.parse(w1); w2=ctx.node_to_wikitext(t2)
    n+=1
    ok1 = dump(t1)==dump(t2); ok2 = (w1==w2)
    if not ok1 or not ok2:
        key=(ok1,ok2)
        bad[key]+=1
        if (not ok1 and sum(1 for v in ex.values() if not v[2])<40) : ex[d]=(w1,w2,ok1,ok2)
print("cases",n,"bad",dict(bad))
for d,(w1,w2,a,b) in [x for x in ex.items() if not x[1][2]][:40]: print(repr(d),"->",repr(w1),"->",repr(w2), a, b)
