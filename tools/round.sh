#!/bin/bash
# usage: tools/round.sh <suffix> <prop> [<prop>...]   e.g. tools/round.sh c C01 C02
# for each property: take seed from /tmp/wt/<prop lower><suffix>/SEED as <PROP>-<suffix>, verify, run that property's quick check
suf=$1; shift
for P in "$@"; do
  p=$(echo $P | tr 'A-Z' 'a-z')
  if [ ! -f /tmp/wt/${p}${suf}/SEED/patch.diff ]; then echo "$P-$suf: no seed yet"; continue; fi
  /verif/tools/take_seed.sh ${p}${suf} $P-$suf 2>&1 | grep -v "^Preparing\|^HEAD"
  /verif/tools/try_seed.sh $P-$suf quick $P 2>&1 | grep -v "^Preparing" | tail -4
done
