#!/bin/bash
# usage: tools/run_all.sh quick|thorough   -- runs every claimed check once, prints rc and wall time
tier=${1:-quick}
cd /verif
for id in $(python3 -c "import json;print(' '.join(c['property_id'] for c in json.load(open('MANIFEST.json'))['checks']))"); do
  s=$(date +%s.%N)
  out=$(/venv/bin/python -B -m vmc $id --tier $tier 2>&1); rc=$?
  e=$(date +%s.%N)
  printf "%s rc=%d %.1fs known=%d viol=%d | %s\n" $id $rc $(echo "$e - $s" | bc) $(echo "$out" | grep -c '^KNOWN-FINDING') $(echo "$out" | grep -c '^VIOLATION') "$(echo "$out" | grep -E '^OK|^HARNESS' | head -1 | cut -c1-80)"
done
