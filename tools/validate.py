#!/opt/veriftools/pyvenv/bin/python
"""Validate MANIFEST.json and all evidence files against the given schemas."""
import glob, json, sys
import jsonschema
ok = True
m = json.load(open('/verif/MANIFEST.json')); jsonschema.validate(m, json.load(open('/root/.vp/MANIFEST.schema.json')))
es = json.load(open('/root/.vp/EVIDENCE.schema.json'))
for c in m['checks']:
    p = c['evidence_file']
    try:
        e = json.load(open(p)); jsonschema.validate(e, es)
        assert e['level'] == c['level_claimed']['category'], "level mismatch"
        print("ok", p, e['tier'], e['coverage'].get('evaluations'), e['wall_s'])
    except Exception as ex:
        ok = False; print("BAD", p, str(ex)[:200])
sys.exit(0 if ok else 1)
