#!/bin/bash
# usage: tools/verify_seed.sh <seed name>   -- re-verifies a kept seed against /repo's HEAD: demo (0 without, 1 with the change), baseline with the change
set -u
name=$1; dst=/verif/seeded/$name
scr=/tmp/wt/verify_$name; rm -rf $scr; git -C /repo worktree add -q --detach $scr HEAD
PYTHONPATH=$scr/src /venv/bin/python $dst/demo.py >/dev/null 2>&1; r0=$?
git -C $scr apply $dst/patch.diff || echo "PATCH DOES NOT APPLY"
PYTHONPATH=$scr/src /venv/bin/python $dst/demo.py >/dev/null 2>&1; r1=$?
base=$(/venv/bin/python /tmp/seedtools/basecmp.py $scr | head -1)
echo "$name: demo unchanged rc=$r0 (want 0), changed rc=$r1 (want 1); $base"
git -C /repo worktree remove --force $scr
