#!/bin/bash
# usage: tools/take_seed.sh <worktree id e.g. c04> <seed name e.g. C04-a>
# copies SEED/ from the agent's worktree into /verif/seeded/<name>, verifies demo (fails with change, passes without) and baseline.
set -u
wt=/tmp/wt/$1; name=$2; dst=/verif/seeded/$name
mkdir -p $dst; cp $wt/SEED/patch.diff $wt/SEED/meta.json $dst/ 2>/dev/null; cp $wt/SEED/demo.py $dst/demo.py
scr=/tmp/wt/verify_$1; rm -rf $scr; git -C /repo worktree add -q --detach $scr HEAD
PYTHONPATH=$scr/src /venv/bin/python $dst/demo.py >/dev/null 2>&1; r0=$?
git -C $scr apply $dst/patch.diff || echo "PATCH DOES NOT APPLY"
PYTHONPATH=$scr/src /venv/bin/python $dst/demo.py >/dev/null 2>&1; r1=$?
base=$(/venv/bin/python /tmp/seedtools/basecmp.py $scr | head -1)
echo "$name: demo unchanged rc=$r0 (want 0), changed rc=$r1 (want 1); $base"
git -C /repo worktree remove --force $scr
