#!/bin/bash
# usage: tools/run_some.sh <tier> <ID> [<ID>...]  -- like run_all.sh for selected checks, one line per check
tier=$1; shift
cd /verif
for id in "$@"; do
  s=$(date +%s.%N)
  out=$(/venv/bin/python -B -m vmc $id --tier $tier 2>&1); rc=$?
  e=$(date +%s.%N)
  printf "%s rc=%d %.1fs known=%d viol=%d | %s\n" $id $rc $(echo "$e - $s" | bc) $(echo "$out" | grep -c '^KNOWN-FINDING') $(echo "$out" | grep -c '^VIOLATION') "$(echo "$out" | grep -E '^OK|^HARNESS|oracle=' | head -2 | cut -c1-160 | tr '\n' ' ')"
done
