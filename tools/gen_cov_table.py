#!/usr/bin/env python3
"""Prints the DESIGN.md 8.2 table from the evidence files (tier of the last run of each check) plus optional
thorough numbers from a tools/run_all.sh thorough log given as argv[1]."""
import json, re, sys, os
thor = {}
for logf in sys.argv[1:]:
    if not os.path.exists(logf):
        continue
    for l in open(logf):
        m = re.match(r"(C\d\d) rc=(\d+) ([\d.]+)s .*?evaluations=(\d+)", l)
        if m:
            thor[m.group(1)] = (int(m.group(4)), float(m.group(3)), int(m.group(2)))
print("| Prop | level | space enumerated (from the evidence of the last quick run) | quick | thorough |")
print("|------|-------|---|-------|----------|")
for i in range(1, 21):
    P = "C%02d" % i
    e = json.load(open(os.path.join(os.environ.get("QUICK_EVID", "/verif/evidence"), "%s.json" % P)))
    c = e["coverage"]
    rule = c.get("rule", "").replace("|", "\\|")
    q = "%s evaluations, %.0f s" % (format(c.get("evaluations", 0), ","), e.get("wall_s", 0))
    t = thor.get(P)
    ts = "%s evaluations, %.0f s%s" % (format(t[0], ","), t[1], "" if t[2] == 0 else " (rc=%d)" % t[2]) if t else "-"
    print("| %s | %s | %s | %s | %s |" % (P, e.get("level", ""), rule, q, ts))
