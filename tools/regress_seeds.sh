#!/bin/bash
# usage: tools/regress_seeds.sh [tier]   -- every kept seed against the quick check of its property (scratch worktrees, /repo untouched)
tier=${1:-quick}
cd /verif
for d in seeded/C??-?; do
  name=$(basename $d); P=${name%%-*}
  extra=""
  [ "$name" = "C13-a" ] && extra="C16"
  [ "$name" = "C15-a" ] && extra="C09"
  out=$(tools/try_seed.sh $name $tier $P $extra 2>&1 | grep "^==" | tr '\n' ' ')
  echo "$name: $out"
done
