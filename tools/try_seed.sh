#!/bin/bash
# usage: tools/try_seed.sh <seed-dir-name under /verif/seeded> <tier> <CHECK> [<CHECK>...]
# Applies seeded/<name>/patch.diff to a scratch worktree of /repo's HEAD (outside /repo and /verif), runs the checks
# against it (VMC_REPO_SRC), removes the worktree.  /repo itself is never modified, so this can run next to other checks.
# (Equivalent to `git -C /repo apply <patch>; run; git -C /repo checkout -- .`, which is what --in-repo does.)
set -u
name=$1; tier=$2; shift 2
patch=/verif/seeded/$name/patch.diff
scr=/tmp/wt/try_$name.$$
git -C /repo worktree add -q --detach $scr HEAD || exit 2
trap 'git -C /repo worktree remove --force '$scr' 2>/dev/null' EXIT
git -C $scr apply "$patch" || { echo "patch does not apply"; exit 2; }
cd /verif
for c in "$@"; do
  out=$(VMC_EVIDENCE_DIR=/tmp/wt/evid_try VMC_REPO_SRC=$scr/src timeout -k 5 1200 /venv/bin/python -B -m vmc "$c" --tier "$tier" 2>&1); rc=$?
  echo "== $name $c $tier rc=$rc: $(echo "$out" | grep -c '^VIOLATION') violation lines"
  echo "$out" | grep -E "^  oracle=" | awk '{print $1}' | sort | uniq -c | head -8
done
