#!/bin/bash
# usage: tools/try_seed.sh <seed-dir-name under /verif/seeded> <tier> <CHECK> [<CHECK>...]
# applies seeded/<name>/patch.diff to /repo, runs the checks, reverts. Never leaves /repo modified.
set -u
name=$1; tier=$2; shift 2
patch=/verif/seeded/$name/patch.diff
cd /repo || exit 2
if ! git diff --quiet; then echo "REPO DIRTY - abort"; exit 2; fi
git apply "$patch" || { echo "patch does not apply"; exit 2; }
trap 'git -C /repo checkout -- . ' EXIT
cd /verif
for c in "$@"; do
  out=$(timeout -k 5 900 /venv/bin/python -B -m vmc "$c" --tier "$tier" 2>&1); rc=$?
  echo "== $name $c $tier rc=$rc: $(echo "$out" | grep -c '^VIOLATION') violation lines"
  echo "$out" | grep -E "^  oracle=" | awk '{print $1}' | sort | uniq -c | head -8
done
git -C /verif checkout -- evidence 2>/dev/null
