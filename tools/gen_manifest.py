#!/usr/bin/env python3
"""Generates /verif/MANIFEST.json from the table below (kept in one place so the
manifest is always valid).  Run: python3 tools/gen_manifest.py"""
import json
import os

HERE = os.path.dirname(os.path.dirname(os.path.abspath(__file__)))
PY = "/venv/bin/python -B -m vmc"

# id -> (category, technique, level text, level_note, design_ref)
CHECKS = {}


def check(pid, category, technique, text, note, ref):
    CHECKS[pid] = (category, technique, text, note, ref)


check("C16", "model_checking",
      "explicit-state exploration of the real expand()/parse(): all pages f, f g, f(g) over the call-form alphabet x all option sets; push/pop graph of Wtp.expand_stack recorded on the implementation",
      "Every bounded page (nesting depth 2, thorough 3) over one call form per push site is executed on the real context under every switch/hook combination and repeated 300 times; the expansion path must return to its initial state on every trace. Exhaustive inside the alphabet and depth bound, so a missing pop on any covered path is found, which tests with one fresh context per case cannot do.",
      "Trusted: the harness' list subclass standing in for expand_stack; the pure-Lua ustring stand-in page. Calls that raise are judged by C05, not here.",
      "DESIGN.md §3 C16")

check("C10", "model_checking",
      "explicit-state exploration of operation histories on the real page store against a dict reference model (every sequence up to the length bound, fresh context and file database per history)",
      "All histories of length <= 3 (quick) / <= 4 (thorough, 3.7M) over adds of four identities whose spellings collide, redirects, commit, reopen and probes under every spelling variant are executed on the real Wtp and every read API is compared with the reference after each step. This is the read-write-read and reopen ordering space the one-shot unit tests never enter.",
      "Trusted: the 60-line dict reference (normalisation rules taken from the statement); SQLite itself; lookups with namespace_id=None only probed with the exact stored title.",
      "DESIGN.md §3 C10")

EXH = "bounded exhaustive enumeration of inputs executed on the real implementation against "
check("C01", "exploration",
      EXH + "a tree well-formedness oracle: all token strings to length k, template-library strings under every expansion mode, nesting towers to depth 100, one-token mutants of real pages",
      "Every string of <= 3 (thorough 4; 5 over a core) tokens over a 57-token alphabet covering every alternative of the tokenizer, the same with structural templates under plain/pre_expand/expand_all/additional_expand, towers of 18 constructs to depth 100 and (thorough) every single-token deletion and structural insertion in the three real pages is parsed; the result must be a ROOT tree satisfying the full shape oracle with no parser state left. Nothing is sampled inside the bound.",
      "Trusted: the shape oracle in vmc/treeutil.py. Inputs containing the package's private-use placeholder code points are outside the alphabet (see C15 / K01).",
      "DESIGN.md §3 C01")
check("C02", "exploration",
      EXH + "a reference nesting model (section stack + marker-prefix list stack) written from the statement",
      "All documents of <= 3 (thorough 4) lines over 38 line kinds x 12 balanced fillers, plus heading-only and marker-only sequences to length 6, are parsed and the extracted skeleton (parent section/item of every heading, item and filler, item markers, list identity, rule position) must equal the model's.",
      "Trusted: the 50-line reference model and the skeleton extractor.",
      "DESIGN.md §3 C02")
check("C15", "exploration",
      EXH + "an independent entity table and a delete-the-comment metamorphic oracle",
      "Every nowiki content of <= 3 tokens (thorough 4 over a core) in 5 embeddings, through expand() and parse(), must come back exactly quoted, decode to the original, stay a single text node and trigger no expansion; every x<!--c-->y over the token alphabet must equal the input with the comment deleted. Placeholder-code-point inputs run under the watchdog.",
      "Trusted: own copy of the documented entity table; c contains no '&'. Comments whose content opens a nowiki are outside the domain (ambiguous in the statement).",
      "DESIGN.md §3 C15")
check("C19", "exploration",
      EXH + "a parse -> to_wikitext -> parse metamorphic oracle under a block-boundary-whitespace normal form, incl. every self-standing sub-tree and children list",
      "All documents of 1..2 (thorough 3) blocks over 17 block templates with every inline expression of nesting depth <= 2 in the slots; t2 must equal t1 in normal form, the second trip must be a fixed point, link counts must not change, and every sub-tree/children list passed directly must reparse to itself.",
      "Trusted: the normal form (strips whitespace only at block boundaries and around heading titles).",
      "DESIGN.md §3 C19")

check("C04", "exploration",
      EXH + "a direct evaluator of the expansion AST (reference transclusion semantics, no wikitext parsing)",
      "Every (template library, page) pair of total AST size <= 5 over Text/Param[default]/Call/#if/#ifeq/#switch/sequence with whitespace-bearing atoms, positional and named arguments, nested calls, a missing template and 0..2 library templates (acyclic), plus every inclusion wrapper, is rendered, expanded by the real expand() and compared exactly with the evaluator (about 10^6 pairs quick, ~10^7 thorough).",
      "Trusted: the evaluator and renderer in vmc/ref_expand.py. Atoms avoid '=', '|', braces, so rendering is unambiguous.",
      "DESIGN.md §3 C04")
check("C13", "exploration",
      EXH + "the reference evaluator extended with the selection rule and hook semantics, over all configurations x grammar pages",
      "All combinations of templates_to_expand x templates_to_not_expand x pre_expand x expand_parserfns x template_fn x post_template_fn behaviours (600 quick / 3840 thorough) times every grammar page up to size 3 (+ size-4 control-flow and interaction pages) are expanded; output, the multiset of template_fn calls with their argument maps, the post_template_fn calls with the default expansion, and identity-when-nothing-selected are compared with the reference.",
      "Trusted: the selection rule as written in the expand() docstring; the reading that values consumed by an expanded construct are complete expansions (DESIGN.md). expand_invoke is covered by C16.",
      "DESIGN.md §3 C13")

check("C14", "exploration",
      EXH + "the one-line argument rule, comparing three independent views (parser node, expander hook, Lua frame)",
      "Every argument list of length <= 3 (thorough 4; <= 7 over a 5-atom sub-alphabet) over 15 atoms mixing positional, named and numeric-named arguments with blanks and newlines, restricted to the property's domain, is parsed, expanded with a capturing template_fn and passed through #invoke to an echo module; all three maps must equal the rule's map (keys with their int/str type, values trimmed or verbatim).",
      "Trusted: echo module + ustring stand-in; plain-text values only (nested calls are C08).",
      "DESIGN.md §3 C14")
check("C08", "exploration",
      EXH + "reference argument evaluation and a differential oracle (Lua API call vs expand() of the equivalent wikitext)",
      "Every argument list of length <= 3 (thorough 4) over 13 atoms incl. nested calls at wrapper depth 0,1,2 is checked for frame args, parent title and parent args; every grammar fragment up to size 3 (thorough 4) goes through frame:preprocess, and grids of expandTemplate / callParserFunction specs (both calling conventions) are compared with expanding the equivalent call.",
      "Trusted: definition of the equivalent call (numbered-named form; values without surrounding blanks for callParserFunction); fixtures as in C14.",
      "DESIGN.md §3 C08")

check("C05", "exploration",
      EXH + "a totality/termination oracle under a per-case watchdog and address-space limit: all call graphs on <= 3 templates x edge realisations x starts, depth towers, every parser function x argument vectors, every #expr token string",
      "All 530 digraphs with self-loops on 1..3 templates x 4 ways of realising an edge x every start, ring/chain families on 4-5 templates and nesting towers to depth 120 must return a string, with an error element and a recorded message exactly when a cycle is reachable (else the reference expansion); every parser function (142) x every argument vector of length <= 2 (thorough 3) over 12 atoms on 4 page titles in both call forms, and every #expr token string of length <= 3 (thorough 4) over all operators must return a string without raising. Hangs and memory exhaustion are results, not harness failures.",
      "Trusted: watchdog (3 s in-process for pure-Python loops, 20 s process kill), RLIMIT_AS 4 GiB. Network-backed functions and #invoke excluded.",
      "DESIGN.md §3 C05")
check("C17", "exploration",
      EXH + "a least-fixpoint reference over the inclusion graph (plus one redirect step)",
      "Every inclusion digraph on 1..3 templates (thorough: all 65536 on 4) x every flag set x every redirect placement x naming schemes, and 8 graph families on 5..8 templates, run through the real analyze_templates() with a harness classifier; the need_pre_expand column must equal the fixpoint exactly, other namespaces stay untouched, and the call must return (5 s alarm).",
      "Trusted: sequential reading of the redirect clause; classifier returns names as stored.",
      "DESIGN.md §3 C17")
check("C12", "exploration",
      EXH + "a dict reference store built from the generator's page list and the documented filter",
      "Generated .xml.bz2 dumps (all 38 non-negative namespaces x 9 title shapes x 11 body shapes x 6 models x redirect yes/no; every namespace x 4 selection sets; every ordered pair of a 28-page collision catalogue) are ingested by the real parse_dump_xml + add_default_templates and get_all_pages() must equal the reference set of (title, ns, body, model, redirect).",
      "Trusted: the generator's XML writer, the reference filter and includable-part function.",
      "DESIGN.md §3 C12")

check("C18", "exploration",
      EXH + "independent reference definitions (AST fold for #expr, help-text definitions for the string functions, round-trip oracle for formatnum)",
      "Every #expr AST of depth <= 2 (thorough: 3 over adjacent precedence levels) over all 17 binary and 16 unary operators in three renderings (minimal parentheses from the documented precedence table, full parentheses, spacing/case variation), full argument grids of #len/#pos/#rpos/#sub/#replace/#explode/#titleparts/padleft/padright/lc/uc/lcfirst/ucfirst/urlencode/#urldecode over all strings of length <= 4 (thorough 6) and all integers in [-10,10], plural, and formatnum|R over all 96 shipped locales x numeral shapes: 2.5M evaluations quick.",
      "Trusted: the reference definitions in vmc/props/c18.py; float tolerance 1e-9; ill-defined expressions (domain/overflow) are C05's.",
      "DESIGN.md §3 C18")

check("C11", "fault_enumeration",
      "exhaustive kill-point enumeration of the real backup/overwrite/commit/close/restore flow: a crash image at every executed source line (deduplicated by directory content), double faults in the restoring open, cross-checked in thorough against forked children really killed by os._exit",
      "Four flows (clean / write-ahead-log-pending database x both branches of the override code) are run under sys.settrace; each of the ~3600 executed lines of core.py/dumpparser.py is a kill point whose on-disk image is opened by a new context and must pass PRAGMA integrity_check and contain exactly the content at backup time; for every first-phase image all kill points of the following restore are enumerated as well.",
      "Trusted: a killed process loses nothing already handed to the OS (no power-loss model); kill points are Python lines, not individual syscalls inside one SQLite call.",
      "DESIGN.md §3 C11")
check("C20", "model_checking",
      "stateless exploration of all thread schedules up to a preemption bound over the real worker code, with scheduling points at every SQLite and file-system operation on the shared files (cooperative baton scheduler, prefix replay, busy -> blocked)",
      "Every schedule of 2 workers with <= 2 preemptions (thorough: 2 workers <= 3, 3 workers <= 2) for 4 initial conditions is executed on a fresh copy of the database directory; each worker's results must equal the single-worker results, no exception / deadlock / database-locked failure may occur and the pages table must be unchanged (plus at most the bootstrap page). A free-running multi-process pass is recorded as corroborating evidence only.",
      "Trusted: SQLite gives separate connections of one process the same locking semantics as separate processes; timeout=0 + retry models the busy handler.",
      "DESIGN.md §3 C20")

check("C06", "model_checking",
      "explicit-state reachability (BFS to closure) over the live Lua/Python object graph of the initialised sandbox with an invariant on every node; exhaustive module-name enumeration for the file loader; attack corpus executed for real",
      "From the environment table and frame a page module receives, every object reachable by table fields (raw next), metatables, the string metatable, require() of every host-package / lua-directory name through the sandbox's own require, nullary frame methods and filter-passing Python attributes/items is visited (about 10^3 objects, 1.5*10^3 edges per graph, several invocation histories); no node may be a host capability (host _G, io, os.*, package, debug.*, load*, get/setfenv, lupa's python table) and Python objects must be plain data or plain functions. Every loader name of length <= 4 (thorough 5) over a 12-symbol path alphabet is tried with an audit hook on open(); 25 attack modules run for real against canaries.",
      "Limit: results of calling reachable functions with arbitrary arguments are not enumerable; only the listed calls are edges. Forbidden set built host-side from the real runtime.",
      "DESIGN.md §3 C06")

check("C07", "exploration",
      "bounded exhaustive enumeration of (non-terminating body x wrapper x position) Lua programs x follow-up invocation histories, each executed on the real sandbox under a process-level watchdog",
      "12 non-terminating bodies x 8 wrappers x 2 positions (thorough: all 192 programs, each with two follow-up histories over {benign, raising, timing-out}; quick: 26 selected programs) are invoked with timeout=1; expand() must return within limit + 2.5 s with the 'Lua timeout error' element, the expansion path restored, and every follow-up invocation on the same context must give what a fresh context gives.",
      "Wall-clock based (whole-second os.time() in the hook); the pool watchdog (12 s) turns a hang into a result.",
      "DESIGN.md §3 C07")
check("C09", "model_checking",
      "explicit enumeration of operation histories on one context (rebuilt from scratch per history, each in a pristine forked process) with a differential oracle against the same event alone on a fresh context",
      "Every history of <= 2 (thorough 3) events over a 35-event alphabet (21 corpus pages incl. one per Lua state channel, by expand/parse/parse(expand_all); creating another context with each of 5 option sets; start_section) is executed on a real context over one committed database; the last page event's tree/expansion/messages/expansion path must equal those of the event alone; Lua state channels also have absolute expectations.",
      "Trusted: the observation function; fork() gives each history a pristine copy of the library's process-global state.",
      "DESIGN.md §3 C09")

check("C03", "exploration",
      EXH + "a generator that emits the wikitext together with the expected structure (attributes, row/cell/argument counts and kinds; contents compared with the content parsed standalone)",
      "Tables for every rows x columns in 1..3 (thorough 4), both separator styles, 4 caption forms, attribute maps on table/row/cell, 3 header patterns and all affine content assignments over 8 contents, the full content product for 2x2 grids, every paired/void allowed HTML tag x 4 attribute maps x 2 quote styles x 6 contents, and template / parser-function / parameter / link / external-link calls over every argument list of length <= 3 over 9 atoms.",
      "Trusted: the generator and the standalone-parse differential for contents; special-purpose tags (pre, nowiki, math, ...) excluded.",
      "DESIGN.md §3 C03")

NOT_APPLICABLE = {}
for i in range(1, 21):
    pid = "C%02d" % i
    if pid not in CHECKS:
        NOT_APPLICABLE[pid] = "check not built yet in this revision of /verif (planned, see DESIGN.md §3); no claim is made"


def main():
    checks = []
    for pid in sorted(CHECKS):
        cat, tech, text, note, ref = CHECKS[pid]
        checks.append({
            "property_id": pid,
            "quick_cmd": "%s %s --tier quick" % (PY, pid),
            "thorough_cmd": "%s %s --tier thorough" % (PY, pid),
            "evidence_file": "/verif/evidence/%s.json" % pid,
            "replay_cmd_template": "%s %s --replay {path}" % (PY, pid),
            "engine": "vmc",
            "level_claimed": {"category": cat, "text": text, "design_ref": ref},
            "level_note": note,
            "technique": tech,
        })
    manifest = {
        "version": 1,
        "setup_cmd": "/venv/bin/python -B -m vmc selftest",
        "hooks": {
            "guard": "WIKITEXTPROCESSOR_VERIF",
            "enable": "no source hooks are needed: checks import /repo/src directly (pure Python, no build step) and observe through the public API plus harness-side wrappers installed in the check's own process",
            "baseline_off_cmd": "/venv/bin/python -B -m vmc baseline",
            "source_commits": [],
            "add_only": True,
        },
        "engines": [{
            "name": "vmc",
            "path": "/verif/vmc",
            "serves_properties": sorted(CHECKS),
            "kind_free_text": "hand-written bounded-exhaustive explorer for Python: enumerators, operation-sequence explorer with reference models, preemption-bounded thread scheduler, crash-point enumerator, object-graph reachability; 16-way process pool with per-case watchdog",
        }],
        "checks": checks,
        "not_applicable": [{"property_id": k, "reason": v} for k, v in sorted(NOT_APPLICABLE.items())],
        "notes": "All checks run the real implementation from /repo/src (current working tree). Known findings: /verif/known_findings.json. Replay files: /verif/replays/<id>/.",
    }
    with open(os.path.join(HERE, "MANIFEST.json"), "w") as f:
        json.dump(manifest, f, indent=1)
        f.write("\n")
    print("wrote MANIFEST.json with", len(checks), "checks;", len(NOT_APPLICABLE), "not_applicable")


if __name__ == "__main__":
    main()
