#!/usr/bin/env python3
"""Generates /verif/MANIFEST.json from the table below (kept in one place so the
manifest is always valid).  Run: python3 tools/gen_manifest.py"""
import json
import os

HERE = os.path.dirname(os.path.dirname(os.path.abspath(__file__)))
PY = "/venv/bin/python -B -m vmc"

# id -> (category, technique, level text, level_note, design_ref)
CHECKS = {}


def check(pid, category, technique, text, note, ref):
    CHECKS[pid] = (category, technique, text, note, ref)


check("C16", "model_checking",
      "explicit-state exploration of the real expand()/parse(): all pages f, f g, f(g) over the call-form alphabet x all option sets; push/pop graph of Wtp.expand_stack recorded on the implementation",
      "Every bounded page (nesting depth 2, thorough 3) over one call form per push site is executed on the real context under every switch/hook combination and repeated 300 times; the expansion path must return to its initial state on every trace. Exhaustive inside the alphabet and depth bound, so a missing pop on any covered path is found, which tests with one fresh context per case cannot do.",
      "Trusted: the harness' list subclass standing in for expand_stack; the pure-Lua ustring stand-in page. Calls that raise are judged by C05, not here.",
      "DESIGN.md §3 C16")

check("C10", "model_checking",
      "explicit-state exploration of operation histories on the real page store against a dict reference model (every sequence up to the length bound, fresh context and file database per history)",
      "All histories of length <= 3 (quick) / <= 4 (thorough, 3.7M) over adds of four identities whose spellings collide, redirects, commit, reopen and probes under every spelling variant are executed on the real Wtp and every read API is compared with the reference after each step. This is the read-write-read and reopen ordering space the one-shot unit tests never enter.",
      "Trusted: the 60-line dict reference (normalisation rules taken from the statement); SQLite itself; lookups with namespace_id=None only probed with the exact stored title.",
      "DESIGN.md §3 C10")

NOT_APPLICABLE = {}
for i in range(1, 21):
    pid = "C%02d" % i
    if pid not in CHECKS:
        NOT_APPLICABLE[pid] = "check not built yet in this revision of /verif (planned, see DESIGN.md §3); no claim is made"


def main():
    checks = []
    for pid in sorted(CHECKS):
        cat, tech, text, note, ref = CHECKS[pid]
        checks.append({
            "property_id": pid,
            "quick_cmd": "%s %s --tier quick" % (PY, pid),
            "thorough_cmd": "%s %s --tier thorough" % (PY, pid),
            "evidence_file": "/verif/evidence/%s.json" % pid,
            "replay_cmd_template": "%s %s --replay {path}" % (PY, pid),
            "engine": "vmc",
            "level_claimed": {"category": cat, "text": text, "design_ref": ref},
            "level_note": note,
            "technique": tech,
        })
    manifest = {
        "version": 1,
        "setup_cmd": "/venv/bin/python -B -m vmc selftest",
        "hooks": {
            "guard": "WIKITEXTPROCESSOR_VERIF",
            "enable": "no source hooks are needed: checks import /repo/src directly (pure Python, no build step) and observe through the public API plus harness-side wrappers installed in the check's own process",
            "baseline_off_cmd": "/venv/bin/python -B -m vmc baseline",
            "source_commits": [],
            "add_only": True,
        },
        "engines": [{
            "name": "vmc",
            "path": "/verif/vmc",
            "serves_properties": sorted(CHECKS),
            "kind_free_text": "hand-written bounded-exhaustive explorer for Python: enumerators, operation-sequence explorer with reference models, preemption-bounded thread scheduler, crash-point enumerator, object-graph reachability; 16-way process pool with per-case watchdog",
        }],
        "checks": checks,
        "not_applicable": [{"property_id": k, "reason": v} for k, v in sorted(NOT_APPLICABLE.items())],
        "notes": "All checks run the real implementation from /repo/src (current working tree). Known findings: /verif/known_findings.json. Replay files: /verif/replays/<id>/.",
    }
    with open(os.path.join(HERE, "MANIFEST.json"), "w") as f:
        json.dump(manifest, f, indent=1)
        f.write("\n")
    print("wrote MANIFEST.json with", len(checks), "checks;", len(NOT_APPLICABLE), "not_applicable")


if __name__ == "__main__":
    main()
