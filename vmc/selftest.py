"""setup_cmd: byte-compile nothing (we run with -B), just prove the runner works offline."""
import time

from .pool import run_chunks


def _work(payload, skip, report):
    out = 0
    for i, x in enumerate(payload):
        if i in skip:
            out += 1000
            continue
        report(i)
        if x == "hang":
            time.sleep(30)
        out += 1
    return out


def _work_deaf(payload, skip, report):
    """A work function that ignores `skip`: the pool itself must turn the repeated hang into a violation."""
    from .runner import Acc
    acc = Acc("SELFTEST")
    for i, x in enumerate(payload):
        report(i)
        if x == "hang":
            time.sleep(30)
        acc.case()
    return acc


def _work_many(payload, skip, report):
    from .runner import Acc
    acc = Acc("SELFTEST")
    for i, x in enumerate(payload):
        if i in skip:
            acc.violation("returns", {"i": i}, "hang", "returns")
            continue
        report(i)
        if x == "hang":
            time.sleep(30)
        acc.case()
    return acc


def main():
    import wikitextprocessor
    from .fixtures import close_ctx, new_ctx

    ctx = new_ctx(lua=True)
    ctx.add_page("Module:m", 828, "local e = {} function e.f(frame) return 'L' .. frame.args[1] end return e", model="Scribunto")
    ctx.start_page("Tt")
    assert ctx.expand("{{#invoke:m|f|x}}") == "Lx", "Lua bridge not working offline"
    assert ctx.parse("== a ==\n* b").children[0].kind.name == "LEVEL2"
    close_ctx(ctx)
    res = dict((cid, (r, h)) for cid, r, h in run_chunks(_work, [[1, 2, 3], [1, "hang", 3]], nproc=2, case_timeout=1.5))
    assert res[0] == (3, []), res
    assert res[1] == (1002, [1]), res
    from .runner import Acc
    Acc("SELFTEST")
    res = dict((cid, (r, h)) for cid, r, h in run_chunks(_work_deaf, [[1, 2], [1, "hang", 3]], nproc=2, case_timeout=1.0))
    assert res[0][0].n == 2 and not res[0][0].viol, res
    assert list(res[1][0].viol) == ["returns_in_time"], res[1][0].viol
    res = dict((cid, (r, h)) for cid, r, h in run_chunks(_work_many, [["hang"] * 5 + [1, 1]], nproc=1, case_timeout=1.0))
    assert len(res[0][0].viol["returns"]) == 3 and res[0][0].n == 0, (res[0][0].viol, res[0][0].n)   # abandoned after three hangs
    print("selftest ok: wikitextprocessor from", wikitextprocessor.__file__)
    return 0
