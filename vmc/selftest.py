"""setup_cmd: byte-compile nothing (we run with -B), just prove the runner works offline."""
import time

from .pool import run_chunks


def _work(payload, skip, report):
    out = 0
    for i, x in enumerate(payload):
        if i in skip:
            out += 1000
            continue
        report(i)
        if x == "hang":
            time.sleep(30)
        out += 1
    return out


def _work_deaf(payload, skip, report):
    """A work function that ignores `skip`: the pool itself must turn the repeated hang into a violation."""
    from .runner import Acc
    acc = Acc("SELFTEST")
    for i, x in enumerate(payload):
        report(i)
        if x == "hang":
            time.sleep(30)
        acc.case()
    return acc


def _work_many(payload, skip, report):
    from .runner import Acc
    acc = Acc("SELFTEST")
    for i, x in enumerate(payload):
        if i in skip:
            acc.violation("returns", {"i": i}, "hang", "returns")
            continue
        report(i)
        if x == "hang":
            time.sleep(30)
        acc.case()
    return acc


_STICKY = [False]


def _work_sticky(payload, skip, report):
    """Case 'poison' leaves state behind (per call of this function); case 'victim' fails only after it."""
    from .runner import Acc
    acc = Acc("SELFTEST")
    _STICKY[0] = False
    for i, x in enumerate(payload):
        report(i)
        acc.case()
        if x == "poison":
            _STICKY[0] = True
        elif x == "victim" and _STICKY[0]:
            acc.violation("victim_ok", {"x": x, "i": i}, "bad", "good")
    return acc


def main():
    import wikitextprocessor
    from .fixtures import close_ctx, new_ctx

    ctx = new_ctx(lua=True)
    ctx.add_page("Module:m", 828, "local e = {} function e.f(frame) return 'L' .. frame.args[1] end return e", model="Scribunto")
    ctx.start_page("Tt")
    assert ctx.expand("{{#invoke:m|f|x}}") == "Lx", "Lua bridge not working offline"
    assert ctx.parse("== a ==\n* b").children[0].kind.name == "LEVEL2"
    close_ctx(ctx)
    res = dict((cid, (r, h)) for cid, r, h in run_chunks(_work, [[1, 2, 3], [1, "hang", 3]], nproc=2, case_timeout=1.5))
    assert res[0] == (3, []), res
    assert res[1] == (1002, [1]), res
    from .runner import Acc
    Acc("SELFTEST")
    res = dict((cid, (r, h)) for cid, r, h in run_chunks(_work_deaf, [[1, 2], [1, "hang", 3]], nproc=2, case_timeout=1.0))
    assert res[0][0].n == 2 and not res[0][0].viol, res
    assert list(res[1][0].viol) == ["returns_in_time"], res[1][0].viol
    res = dict((cid, (r, h)) for cid, r, h in run_chunks(_work_many, [["hang"] * 5 + [1, 1]], nproc=1, case_timeout=1.0))
    assert len(res[0][0].viol["returns"]) == 3 and res[0][0].n == 0, (res[0][0].viol, res[0][0].n)   # abandoned after three hangs
    # a violation that does not reproduce alone but does when its chunk is run again: chunk-level replay confirms it
    from .runner import chunk_replay
    res = dict((cid, (r, h)) for cid, r, h in run_chunks(_work_sticky, [["a", "victim"], ["poison", "b", "victim"]], nproc=2, case_timeout=5.0))
    assert not res[0][0].viol and len(res[1][0].viol["victim_ok"]) == 1, (res[0][0].viol, res[1][0].viol)
    v = res[1][0].viol["victim_ok"][0]
    assert v.get("chunk") is not None and chunk_replay(v) is True, v
    assert chunk_replay(dict(v, case={"x": "victim", "i": 99})) is False
    # a task that vanishes (as when a killed worker takes the lock of the shared queue with it): the pool notices that
    # everybody is idle while chunks are pending, rebuilds queues and workers, and finishes
    import os
    import tempfile
    flag = os.path.join(tempfile.gettempdir(), "lose_one_%d" % os.getpid())
    os.environ["VMC_POOL_SELFTEST_LOSE_ONE"], os.environ["VMC_POOL_STALL"] = flag, "2"
    try:
        res = dict((cid, r) for cid, r, h in run_chunks(_work, [[1], [1, 2], [1, 2, 3]], nproc=2, case_timeout=1.5))
    finally:
        del os.environ["VMC_POOL_SELFTEST_LOSE_ONE"], os.environ["VMC_POOL_STALL"]
    assert res == {0: 1, 1: 2, 2: 3} and os.path.exists(flag), res
    os.remove(flag)
    print("selftest ok: wikitextprocessor from", wikitextprocessor.__file__)
    return 0
