"""Run bookkeeping: violations, known findings, replay files, evidence, exit code."""
from __future__ import annotations

import collections
import hashlib
import json
import os
import re
import sys
import time

VERIF = os.path.dirname(os.path.dirname(os.path.abspath(__file__)))
KNOWN_PATH = os.path.join(VERIF, "known_findings.json")
MAX_KEEP = 40  # unmatched violations kept per oracle per accumulator


def _load_known():
    try:
        with open(KNOWN_PATH, encoding="utf-8") as f:
            data = json.load(f)
    except FileNotFoundError:
        return []
    out = []
    for i, e in enumerate(data.get("findings", [])):
        if e.get("status") != "known":
            continue
        e = dict(e)
        e["_idx"] = i
        e["_re"] = {k: re.compile(v, re.S) for k, v in e.get("match", {}).items()}
        out.append(e)
    return out


KNOWN = _load_known()


def jdump(obj):
    try:
        return json.dumps(obj, sort_keys=True, ensure_ascii=False, default=str)
    except TypeError:  # mixed int/str keys
        return json.dumps(obj, sort_keys=False, ensure_ascii=False, default=str)


def field_text(case, field):
    v = case.get(field) if isinstance(case, dict) else None
    if isinstance(v, str):
        return v
    return jdump(v)


def match_known(prop, oracle, case):
    for e in KNOWN:
        if e["property"] != prop or e["oracle"] != oracle:
            continue
        ok = True
        for k, rx in e["_re"].items():
            if not rx.search(field_text(case, k)):
                ok = False
                break
        if ok:
            return e
    return None


def h64(obj) -> int:
    if not isinstance(obj, (bytes, str)):
        obj = jdump(obj)
    if isinstance(obj, str):
        obj = obj.encode("utf-8", "surrogatepass")
    return int.from_bytes(hashlib.blake2b(obj, digest_size=8).digest(), "big")


class Acc:
    """Accumulator used inside workers (and merged in the parent)."""

    current = None   # the accumulator most recently created in this process (see pool.Bail)

    def __init__(self, prop):
        Acc.current = self
        self.prop = prop
        self.n = 0
        self.viol = collections.defaultdict(list)   # oracle -> [violation dict]
        self.viol_count = collections.Counter()     # oracle -> unmatched count
        self.known = collections.Counter()          # known idx -> count
        self.known_ex = {}                          # known idx -> example case
        self.counters = collections.Counter()
        self.sets = collections.defaultdict(set)    # name -> set of 64 bit hashes
        self.samples = []

    def case(self, k=1):
        self.n += k

    def count(self, name, k=1):
        self.counters[name] += k

    def distinct(self, name, obj):
        self.sets[name].add(h64(obj))

    def sample(self, obj, limit=6):
        if len(self.samples) < limit:
            self.samples.append(obj)

    watch = None        # (oracle, canonical case) looked for during a chunk-level replay
    watch_hit = False

    def violation(self, oracle, case, observed=None, expected=None):
        if Acc.watch is not None and Acc.watch[0] == oracle and jdump(case) == Acc.watch[1]:
            Acc.watch_hit = True
        e = match_known(self.prop, oracle, case)
        if e is not None:
            self.known[e["_idx"]] += 1
            self.known_ex.setdefault(e["_idx"], case)
            return
        self.viol_count[oracle] += 1
        lst = self.viol[oracle]
        v = {"oracle": oracle, "case": case, "observed": observed, "expected": expected}
        if len(lst) < MAX_KEEP:
            lst.append(v)
        else:
            # keep the smallest ones
            size = len(json.dumps(case, default=str))
            worst = max(range(len(lst)), key=lambda i: len(json.dumps(lst[i]["case"], default=str)))
            if size < len(json.dumps(lst[worst]["case"], default=str)):
                lst[worst] = v

    def merge(self, other: "Acc"):
        self.n += other.n
        for o, lst in other.viol.items():
            self.viol[o].extend(lst)
            self.viol[o].sort(key=lambda v: (len(json.dumps(v["case"], default=str)), jdump(v["case"])))
            del self.viol[o][MAX_KEEP:]
        self.viol_count.update(other.viol_count)
        self.known.update(other.known)
        for k, v in other.known_ex.items():
            self.known_ex.setdefault(k, v)
        self.counters.update(other.counters)
        for k, s in other.sets.items():
            self.sets[k] |= s
        for s in other.samples:
            self.sample(s)


REPLAY_LIMIT = 90


class _ReplayTimeout(BaseException):
    pass


def _replay_with_alarm(fn, case):
    """Runs the in-process replay under an alarm: a replay that never returns confirms a hang instead of hanging the check."""
    import signal

    def _h(*a):
        raise _ReplayTimeout()

    old = signal.signal(signal.SIGALRM, _h)
    signal.alarm(REPLAY_LIMIT)
    try:
        return fn(case), False
    except _ReplayTimeout:
        return None, True
    finally:
        signal.alarm(0)
        signal.signal(signal.SIGALRM, old)


CHUNK_REPLAY_LIMIT = 300


def _chunk_ref(v):
    from . import pool

    work, chunks, _init = pool.RUNS[v["chunk"][0]]
    return {"work": work.__module__ + "." + work.__name__, "payload": chunks[v["chunk"][1]]}


def chunk_replay(v):
    """A violation that does not reproduce alone may depend on what the worker's long-lived context processed before it.
    Re-runs the whole chunk it came from, in this process, with fresh state, and tells whether the same (oracle, case)
    is reported again.  Returns True / False, or None when the violation carries no chunk reference."""
    import signal
    from . import pool

    ref = v.get("chunk")
    if not ref or ref[0] >= len(pool.RUNS):
        return None
    work, chunks, init = pool.RUNS[ref[0]]
    keep = Acc.current
    Acc.watch, Acc.watch_hit = (v["oracle"], jdump(v["case"])), False

    def _h(*a):
        raise _ReplayTimeout()

    old = signal.signal(signal.SIGALRM, _h)
    signal.alarm(CHUNK_REPLAY_LIMIT)
    try:
        if init is not None:
            work(chunks[ref[1]], frozenset(), lambda i: None, init())
        else:
            work(chunks[ref[1]], frozenset(), lambda i: None)
    except BaseException:   # Bail, timeout, or the chunk failing: what counts is whether the case was seen again
        pass
    finally:
        signal.alarm(0)
        signal.signal(signal.SIGALRM, old)
        hit = Acc.watch_hit
        Acc.watch, Acc.watch_hit = None, False
        Acc.current = keep
    return hit


class Run:
    def __init__(self, prop, tier, seed, level):
        self.prop, self.tier, self.seed, self.level = prop, tier, seed, level
        self.t0 = time.time()
        self.acc = Acc(prop)
        self.notes = []

    def log(self, *a):
        print("[%s %s %6.1fs]" % (self.prop, self.tier, time.time() - self.t0), *a, flush=True)

    def finish(self, coverage, assumptions, replay_fn=None):
        """Write evidence, print protocol lines, return the exit code."""
        acc = self.acc
        all_known = {}
        try:
            with open(KNOWN_PATH, encoding="utf-8") as f:
                for i, e in enumerate(json.load(f).get("findings", [])):
                    all_known[i] = e
        except FileNotFoundError:
            pass
        for idx, cnt in sorted(acc.known.items()):
            e = all_known[idx]
            print("KNOWN-FINDING: property=%s %s [oracle=%s, %d case(s) in this run, e.g. %s]" % (
                self.prop, e["what"], e["oracle"], cnt,
                json.dumps(acc.known_ex.get(idx), ensure_ascii=True, default=str)[:300]))
        # vacuity guard: a listed known finding that no case of this run reproduced means the run no longer reaches it
        silent = [e["id"] for i, e in all_known.items()
                  if e.get("property") == self.prop and e.get("status") == "known" and i not in acc.known]
        for kid in silent:
            self.log("note: known finding %s was not reproduced by any case of this %s run" % (kid, self.tier))
        nviol = 0
        bad_harness = False
        rdir = os.path.join(VERIF, "replays", self.prop)
        for oracle in sorted(acc.viol):
            lst = sorted(acc.viol[oracle], key=lambda v: (len(json.dumps(v["case"], default=str)), jdump(v["case"])))
            for v in lst[:5]:
                if replay_fn is not None:
                    try:
                        again, timed_out = _replay_with_alarm(replay_fn, v["case"])
                    except Exception as ex:  # replay itself failing is a harness problem
                        again, timed_out = None, False
                        self.log("replay raised", repr(ex))
                    if timed_out:
                        self.log("replay of %s did not return within %d s (hang confirmed)" % (oracle, REPLAY_LIMIT))
                    if again is not None and not any(a["oracle"] == oracle for a in again) and oracle.startswith("returns_in_time"):
                        # a watchdog timeout that the in-process replay does not confirm is a load artefact of the machine,
                        # not a property of the code: reported as a note, not as a violation
                        self.log("note: %s case did not reproduce on replay (timing under load), ignored: %s" % (
                            oracle, json.dumps(v["case"], default=str)[:200]))
                        continue
                    if again is not None and not any(a["oracle"] == oracle for a in again):
                        # not alone on a fresh context - does it depend on the cases before it in its chunk?
                        if chunk_replay(v):
                            self.log("note: %s case reproduces only after the cases before it in its chunk (state left behind "
                                     "by an earlier case); the replay file names the chunk" % oracle)
                            v = dict(v, state_dependent=True)
                        else:
                            print("HARNESS-ERROR property=%s oracle=%s violation did not reproduce: %s" % (
                                self.prop, oracle, json.dumps(v["case"], default=str)[:400]))
                            bad_harness = True
                            continue
                os.makedirs(rdir, exist_ok=True)
                body = {"property": self.prop, "oracle": oracle, "tier": self.tier, "case": v["case"],
                        "observed": v["observed"], "expected": v["expected"], "state_dependent": bool(v.get("state_dependent")),
                        "chunk": _chunk_ref(v) if v.get("state_dependent") else None,
                        "created": time.strftime("%Y-%m-%dT%H:%M:%SZ", time.gmtime())}
                name = "%016x.json" % h64([oracle, v["case"]])
                path = os.path.join(rdir, name)
                with open(path, "w", encoding="utf-8") as f:
                    json.dump(body, f, indent=1, ensure_ascii=True, default=str)
                print("VIOLATION property=%s replay=%s" % (self.prop, path))
                print("  oracle=%s (%d unlisted case(s) of this oracle) case=%s" % (
                    oracle, acc.viol_count[oracle], json.dumps(v["case"], ensure_ascii=True, default=str)[:500]))
                print("  observed=%s" % json.dumps(v["observed"], ensure_ascii=True, default=str)[:500])
                print("  expected=%s" % json.dumps(v["expected"], ensure_ascii=True, default=str)[:500])
                nviol += 1
        cov = dict(coverage)
        cov.setdefault("evaluations", acc.n)
        for k, s in acc.sets.items():
            cov.setdefault("distinct_" + k, len(s))
        cov.setdefault("samples", acc.samples[:6] or ["(none recorded)"])
        cov["counters"] = dict(acc.counters)
        cov["known_finding_hits"] = {all_known[i]["id"]: c for i, c in acc.known.items()}
        cov["known_findings_not_reproduced"] = silent
        cov["unlisted_violation_cases"] = dict(acc.viol_count)
        ev = {
            "property_id": self.prop,
            "tier": self.tier,
            "seed": self.seed,
            "level": self.level,
            "coverage": cov,
            "assumptions": assumptions,
            "wall_s": round(time.time() - self.t0, 3),
            "violations": nviol,
        }
        evdir = os.environ.get("VMC_EVIDENCE_DIR") or os.path.join(VERIF, "evidence")   # (overridden only by tools/try_seed.sh)
        os.makedirs(evdir, exist_ok=True)
        with open(os.path.join(evdir, self.prop + ".json"), "w", encoding="utf-8") as f:
            json.dump(ev, f, indent=1, ensure_ascii=True, default=str)
            f.write("\n")
        brief = {k: v for k, v in cov.items() if isinstance(v, (int, float, bool))}
        self.log("done", json.dumps(brief))
        if bad_harness:
            return 2
        if nviol:
            return 1
        print("OK property=%s tier=%s evaluations=%d wall=%.1fs" % (self.prop, self.tier, cov["evaluations"], ev["wall_s"]))
        return 0
