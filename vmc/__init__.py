"""vmc -- bounded exhaustive exploration ("model checking") of wikitextprocessor.

Run as:  /venv/bin/python -B -m vmc <ID> --tier quick|thorough [--replay FILE]
"""
