"""C11  Restoring the page database from its backup is crash-safe.

Fault enumeration: the real override flow (open -> analyze_and_overwrite_pages
with skip_extract_dump=True -> backup_db -> overwrite -> commit -> close) and
the restoring re-open are executed under sys.settrace; at EVERY executed source
line of core.py / dumpparser.py the database directory is fingerprinted and each
distinct on-disk state is kept as a crash image (what survives a killed
process).  Every image is then opened by a new Wtp and compared with the
reference content; for every image of the first phase every kill point of the
subsequent restoring open is enumerated as well (double faults).  Thorough also
kills a real forked child with os._exit at the event of every distinct image and
requires the same outcome.
"""
from __future__ import annotations

import hashlib
import json
import os
import shutil
import sys
from pathlib import Path

import wikitextprocessor.dumpparser  # noqa: F401  (imported here so its module body is not traced as kill points)
from ..fixtures import new_ctx, scratch_dir
from ..pool import run_chunks
from ..runner import Acc

PROP = "C11"
LEVEL = "fault_enumeration"
SRC_FILES = ("wikitextprocessor/core.py", "wikitextprocessor/dumpparser.py")
SKIP_FUNCS = {"<genexpr>", "init_namespace_data", "init_localization_data", "init_data_folder", "<lambda>", "<dictcomp>",
              "<listcomp>", "<setcomp>"}

FLOWS = [
    {"name": "clean+template", "unclean": False, "template": True},
    {"name": "clean+plain", "unclean": False, "template": False},
    {"name": "wal-pending+template", "unclean": True, "template": True},
    {"name": "wal-pending+plain", "unclean": True, "template": False},
    # two backups taken by one context with small commits in between (content stays in the write-ahead log)
    {"name": "two-backups", "unclean": False, "template": False, "two": True},
    {"name": "two-backups+wal-pending", "unclean": True, "template": False, "two": True},
    # a second context on the same file is half-way through get_all_pages() (holds a read snapshot that is older than the
    # writer's last commits, so the write-ahead log cannot be checkpointed completely) while the backup is taken
    {"name": "backup-with-reader", "unclean": False, "template": False, "reader": True},
    {"name": "backup-with-reader+wal-pending", "unclean": True, "template": False, "reader": True},
    # no backup at all: committed pages, then the context is closed while (a) one of its own get_all_pages() iterations is
    # unfinished, (b) a second context on the same file is still open; the committed content must survive a kill anywhere
    {"name": "close-with-unfinished-iteration", "unclean": False, "template": False, "close": "iter"},
    {"name": "close-while-other-context-open", "unclean": False, "template": False, "close": "other"},
    {"name": "close-while-other-context-open+wal-pending", "unclean": True, "template": False, "close": "other"},
]
CLOSE_PAGES = [("S1", 0, "committed before the close " + "s" * 300, None), ("S2", 0, "also committed before the close " + "t" * 300, None)]
READER_PAGES = [("R1", 0, "committed before the reader's snapshot " + "y" * 300, None),
                ("R2", 0, "committed after the reader's snapshot, before the backup " + "z" * 300, None)]


def fingerprint(d):
    h = hashlib.sha1()
    for f in sorted(os.listdir(d)):
        if f == "ov.json":
            continue
        h.update(f.encode())
        h.update(b"\0")
        with open(os.path.join(d, f), "rb") as fh:
            h.update(fh.read())
        h.update(b"\1")
    return h.hexdigest()


# The database has a dotted stem, and two other databases live next to it whose names are what a sloppy derivation of
# the backup name would produce ("t.db", "t.v2.db" minus one component): they must never be touched.
DBNAME = "t.v2.db"
NEIGHBOURS = {"t.db": "neighbour one", "t.v2_backup": "neighbour two", "t_backup.db": "neighbour three"}


def neighbours_changed(d):
    bad = []
    for name, text in NEIGHBOURS.items():
        fp = os.path.join(d, name)
        try:
            with open(fp, "rb") as fh:
                if fh.read() != text.encode():
                    bad.append(name + ": content changed")
        except OSError:
            bad.append(name + ": gone")
    return bad


def make_s0(base, flow):
    """Creates the initial database directory; returns (dir, reference content)."""
    s0 = Path(base) / "s0"
    s0.mkdir()
    w = new_ctx(db_path=s0 / DBNAME)
    for i in range(5):
        w.add_page("P%d" % i, 0, "orig%d " % i + "x" * 200)
    w.add_page("Template:a", 10, "orig template")
    w.db_conn.commit()
    ov = {"P1": {"namespace_id": 0, "body": "NEW1"}, "P2": {"namespace_id": 0, "body": "NEW2"},
          "P9": {"namespace_id": 0, "body": "ADDED"}}
    if flow["template"]:
        ov["Template:a"] = {"namespace_id": 10, "body": "NEW template"}
    if flow["unclean"]:
        # state left by a killed creator: committed content still in the write-ahead log
        w.add_page("P4", 0, "orig4 second committed version")
        w.db_conn.commit()
        img = Path(base) / "s0u"
        shutil.copytree(s0, img)
        w.close_db_conn()
        shutil.rmtree(s0)
        img.rename(s0)
    else:
        w.close_db_conn()
    (s0 / "ov.json").write_text(json.dumps(ov))
    for name, text in NEIGHBOURS.items():
        (s0 / name).write_text(text)
    return s0


def content(d):
    """Opens the directory's database with a new context (this performs any pending restore)."""
    w = new_ctx(db_path=Path(d) / DBNAME)
    try:
        integ = [r[0] for r in w.db_conn.execute("PRAGMA integrity_check")]
        pages = sorted((p.title, p.namespace_id, p.body, p.redirect_to) for p in w.get_all_pages())
    finally:
        w.close_db_conn()
    return integ, pages


class Tracer:
    def __init__(self, work, imgbase, tag):
        self.work, self.imgbase, self.tag = work, imgbase, tag
        self.images = {}     # fp -> dict(event, label, dir)
        self.n = 0
        self.kill_at = None  # for the forked realisation
        self.nbackups = 0    # completed backup_db() calls so far
        self.in_backup = False

    def __call__(self, frame, ev, arg):
        fn = frame.f_code.co_filename
        if not fn.endswith(SRC_FILES):
            return None
        if frame.f_code.co_name == "backup_db":
            if ev == "call":
                self.in_backup = True
            elif ev == "return":
                self.in_backup = False
                self.nbackups += 1
        if ev == "line":
            name = frame.f_code.co_name
            if name in SKIP_FUNCS:
                return self
            self.n += 1
            if self.kill_at is not None:
                if self.n == self.kill_at:
                    os._exit(77)
                return self
            h = fingerprint(self.work)
            if h not in self.images:
                img = Path(self.imgbase) / ("%s_%d" % (self.tag, len(self.images)))
                shutil.copytree(self.work, img)
                self.images[h] = {"event": self.n, "label": "%s:%d" % (name, frame.f_lineno), "dir": str(img),
                                  "nbackups": self.nbackups, "in_backup": self.in_backup}
        return self


def phase1(work):
    from wikitextprocessor import Wtp
    from wikitextprocessor.dumpparser import analyze_and_overwrite_pages

    Wtp.get_page.cache_clear()   # same executed lines in every realisation
    w = new_ctx(db_path=Path(work) / DBNAME)
    analyze_and_overwrite_pages(w, [Path(work) / "ov.json"], True, None)
    w.close_db_conn()


def phase1_two(work):
    from wikitextprocessor import Wtp

    Wtp.get_page.cache_clear()
    w = new_ctx(db_path=Path(work) / DBNAME)
    w.backup_db()
    w.add_page("Q1", 0, "written after the first backup")
    w.db_conn.commit()
    w.backup_db()
    w.add_page("Q2", 0, "written after the second backup")
    w.add_page("P0", 0, "P0 overwritten after the second backup")
    w.db_conn.commit()
    w.close_db_conn()


def phase1_reader(work):
    """Untraced prelude (the other context and the commits before the backup), traced: backup, later writes, close."""
    from wikitextprocessor import Wtp

    tr = sys.gettrace()
    sys.settrace(None)
    Wtp.get_page.cache_clear()
    w = new_ctx(db_path=Path(work) / DBNAME)
    r = new_ctx(db_path=Path(work) / DBNAME)
    w.add_page(*READER_PAGES[0][:3])
    w.db_conn.commit()
    it = r.get_all_pages()
    next(it)
    w.add_page(*READER_PAGES[1][:3])
    w.add_page("P3", 0, "P3 second version, committed before the backup " + "w" * 300)
    w.db_conn.commit()
    sys.settrace(tr)
    w.backup_db()
    w.add_page("Q2", 0, "written after the backup")
    w.add_page("P0", 0, "P0 overwritten after the backup")
    w.db_conn.commit()
    sys.settrace(None)
    for _ in it:
        pass
    r.close_db_conn()
    sys.settrace(tr)
    w.close_db_conn()


def phase1_close(kind):
    def fn(work):
        from wikitextprocessor import Wtp

        tr = sys.gettrace()
        sys.settrace(None)
        Wtp.get_page.cache_clear()
        w = new_ctx(db_path=Path(work) / DBNAME)
        r = new_ctx(db_path=Path(work) / DBNAME) if kind == "other" else None
        for pg in CLOSE_PAGES:
            w.add_page(*pg[:3])
        w.db_conn.commit()
        it = None
        if kind == "iter":
            it = w.get_all_pages()
            next(it)
        sys.settrace(tr)
        w.close_db_conn()
        sys.settrace(None)
        fn.keep = (r, it)     # stays open until the process ends (a killed process closes nothing)
        sys.settrace(tr)
    return fn


def phase2(work):
    w = new_ctx(db_path=Path(work) / DBNAME)
    w.close_db_conn()


def traced(fn, tracer, work):
    sys.settrace(tracer)
    try:
        fn(work)
    finally:
        sys.settrace(None)


def judge(acc, case, img_dir, want, also=None):
    tmp = img_dir + "_open"
    shutil.copytree(img_dir, tmp)
    try:
        try:
            integ, pages = content(tmp)
        except Exception as e:
            acc.violation("database_opens", case, type(e).__name__ + ": " + str(e)[:120], "opens")
            return None
        if integ != ["ok"]:
            acc.violation("integrity_check", case, integ[:3], ["ok"])
        nb = neighbours_changed(tmp)
        if nb:
            acc.violation("other_files_of_the_directory_untouched", case, nb, "unchanged")
        if pages != want and (also is None or pages != also):
            gt = {p[0]: p[2] for p in pages}
            wt = {p[0]: p[2] for p in want}
            lost = sorted(set(wt) - set(gt))
            newer = sorted(k for k in gt if k in wt and gt[k] != wt[k]) + sorted(set(gt) - set(wt))
            if lost:
                acc.violation("original_pages_survive", case, {"lost": lost, "pages_left": len(pages)}, "all %d original pages" % len(want))
            if newer:
                acc.violation("no_post_backup_version_survives", case,
                              {k: (gt.get(k) or "")[:30] for k in newer}, "content at backup time")
        return (tuple(integ), tuple(pages))
    finally:
        shutil.rmtree(tmp, ignore_errors=True)


def work(payload, skip, report):
    acc = Acc(PROP)
    flow, thorough = payload
    base = scratch_dir("c11")
    try:
        s0 = make_s0(base, flow)
        try:
            _, want = content_copy(s0, base)
        except Exception as e:
            acc.case()
            acc.violation("database_opens", {"flow": flow.get("name", str(flow)), "step": "the initial database, nothing killed yet"},
                          type(e).__name__ + ": " + str(e)[:120], "opens")
            return acc
        wk = Path(base) / "work"
        shutil.copytree(s0, wk)
        t1 = Tracer(str(wk), base, "p1")
        two = bool(flow.get("two"))
        p1 = phase1_two if two else phase1_reader if flow.get("reader") else phase1_close(flow["close"]) if flow.get("close") else phase1
        if flow.get("close"):
            want = sorted(want + CLOSE_PAGES)
        if flow.get("reader"):
            want = sorted([p for p in want if p[0] != "P3"] + READER_PAGES
                          + [("P3", 0, "P3 second version, committed before the backup " + "w" * 300, None)])
        traced(p1, t1, str(wk))
        want2 = sorted(want + [("Q1", 0, "written after the first backup", None)])

        def expect(info):
            """Content at the last completed backup; while a backup is in progress either side of it is acceptable."""
            if not two:
                return want, None
            k = info.get("nbackups", 0)
            w_k = want if k <= 1 else want2
            return w_k, None     # strictly the last *completed* backup, also while the next one is being taken

        nev1 = t1.n
        t2 = Tracer(str(wk), base, "p2")
        try:
            traced(phase2, t2, str(wk))
        except Exception as e:
            acc.case()
            acc.violation("database_opens", {"flow": flow["name"], "phase": "open after the first phase has completed (no kill)"},
                          type(e).__name__ + ": " + str(e)[:120], "opens")
        acc.count("line_events_phase1", nev1)
        acc.count("line_events_phase2", t2.n)
        outcomes = {}
        i = 0
        # single faults in phase 1 and phase 2
        for phase, tr in (("override", t1), ("restore", t2)):
            for fp, info in tr.images.items():
                report(i)
                i += 1
                case = {"flow": flow["name"], "phase": phase, "kill_before_line": info["label"], "event": info["event"]}
                if phase == "restore" and two:
                    w_, a_ = want2, None
                else:
                    w_, a_ = expect(info)
                res = judge(acc, case, info["dir"], w_, a_)
                acc.case()
                acc.distinct("images", fp)
                outcomes[(phase, info["event"])] = res
        # double faults: for each phase-1 image, every kill point of the restoring open
        for fp, info in t1.images.items():
            wk2 = Path(base) / "work2"
            if wk2.exists():
                shutil.rmtree(wk2)
            shutil.copytree(info["dir"], wk2)
            td = Tracer(str(wk2), base, "d%d" % info["event"])
            try:
                traced(phase2, td, str(wk2))
            except Exception:
                pass   # the open itself failing is judged through the single-fault image
            acc.count("line_events_double", td.n)
            for fp2, info2 in td.images.items():
                report(i)
                i += 1
                case = {"flow": flow["name"], "phase": "override then restore", "kill_before_line": info["label"],
                        "event": info["event"], "second_kill_before_line": info2["label"], "second_event": info2["event"]}
                w_, a_ = expect(info)
                judge(acc, case, info2["dir"], w_, a_)
                acc.case()
                acc.distinct("images", fp + fp2)
        # real killed process for every distinct phase-1 image (thorough)
        if thorough:
            for fp, info in t1.images.items():
                wk3 = Path(base) / "work3"
                if wk3.exists():
                    shutil.rmtree(wk3)
                shutil.copytree(s0, wk3)
                pid = os.fork()
                if pid == 0:
                    tk = Tracer(str(wk3), base, "k")
                    tk.kill_at = info["event"]
                    sys.settrace(tk)
                    try:
                        p1(str(wk3))
                    finally:
                        os._exit(78)
                _, status = os.waitpid(pid, 0)
                report(i)
                i += 1
                case = {"flow": flow["name"], "phase": "override (forked child killed by os._exit)",
                        "kill_before_line": info["label"], "event": info["event"]}
                acc.case()
                if os.WEXITSTATUS(status) != 77:
                    acc.violation("replay_divergence", case, os.WEXITSTATUS(status), 77)
                    continue
                w_, a_ = expect(info)
                res = judge(acc, case, str(wk3), w_, a_)
                if res != outcomes.get(("override", info["event"])):
                    acc.violation("image_equals_real_kill", case, "real kill outcome differs from the copied image's", "same outcome")
        acc.sample({"flow": flow["name"], "phase1_line_events": nev1, "phase2_line_events": t2.n,
                    "distinct_images_phase1": len(t1.images), "kill_points": [v["label"] for v in list(t1.images.values())[:12]]})
    finally:
        shutil.rmtree(base, ignore_errors=True)
    return acc


def content_copy(s0, base):
    tmp = os.path.join(base, "s0_probe")
    shutil.copytree(s0, tmp)
    try:
        return content(tmp)
    finally:
        shutil.rmtree(tmp, ignore_errors=True)


# A transaction that is larger than SQLite's page cache (pages are written to the database file before the commit) is open
# when the process is killed, after a completed backup and a committed overwrite.  Kill points: after every 40th page of the
# big write (harness granularity; the per-line flows above use small transactions).  The database file is created in the
# three ways callers create it: a fresh path, a path at which an empty file exists already (tempfile), a Wtp() temporary
# database reopened by its path.
BIG_N, BIG_BODY = 320, "b" * 9000


def big_child(path, how, kill_after):
    """Runs in a forked child: returns never (os._exit)."""
    from wikitextprocessor import Wtp
    try:
        if how == "preexisting-empty-file":
            open(path, "wb").close()
        if how == "default-temporary":
            w = Wtp(quiet=True, quiet_output=True)
            path2 = str(w.db_path)
            with open(path + ".where", "w") as f:
                f.write(path2)
        else:
            w = Wtp(db_path=Path(path), quiet=True, quiet_output=True)
        for i in range(BIG_N):
            w.add_page("P%d" % i, 0, "v1 %d " % i + BIG_BODY)
        w.db_conn.commit()
        w.backup_db()
        for i in range(0, BIG_N, 7):
            w.add_page("P%d" % i, 0, "v2 committed " + BIG_BODY)
        w.db_conn.commit()
        for i in range(BIG_N):
            w.add_page("P%d" % i, 0, "v3 never committed " + BIG_BODY + BIG_BODY)
            if i + 1 == kill_after:
                os._exit(77)
    except BaseException:   # noqa: BLE001
        os._exit(78)
    os._exit(79)


def work_big(payload, skip, report):
    acc = Acc(PROP)
    _, how = payload
    from wikitextprocessor import Wtp
    for kill_after in (40, 120, 200, 320):
        report(kill_after)
        base = scratch_dir("c11big")
        try:
            path = os.path.join(base, DBNAME)
            pid = os.fork()
            if pid == 0:
                big_child(path, how, kill_after)
            _, st = os.waitpid(pid, 0)
            code = os.waitstatus_to_exitcode(st)
            case = {"flow": "big-uncommitted-transaction", "database_file": how, "killed_after_pages": kill_after}
            acc.case()
            acc.distinct("images", [how, kill_after])
            if code != 77:
                acc.violation("database_opens", case, "the writing process ended with status %d before the kill point" % code, "killed at the kill point")
                continue
            if how == "default-temporary":
                path = open(path + ".where").read()
            try:
                w = Wtp(db_path=Path(path), quiet=True, quiet_output=True)
                integ = [r[0] for r in w.db_conn.execute("PRAGMA integrity_check")]
                pages = {p.title: (p.body or "")[:12] for p in w.get_all_pages()}
                w.db_conn.close()
                Wtp.get_page.cache_clear()
            except Exception as e:
                acc.violation("database_opens", case, type(e).__name__ + ": " + str(e)[:120], "opens")
                continue
            finally:
                if how == "default-temporary":
                    for f in (path, path + "-wal", path + "-shm", path + "-journal", path.replace("tempdb", "tempdb") + "_backup"):
                        try:
                            os.remove(f)
                        except OSError:
                            pass
            if integ != ["ok"]:
                acc.violation("integrity_check", case, integ[:3], ["ok"])
            lost = [t for t in ("P%d" % i for i in range(BIG_N)) if t not in pages]
            newer = sorted(t for t, b in pages.items() if t.startswith("P") and not b.startswith("v1 "))
            if lost:
                acc.violation("original_pages_survive", case, {"lost": len(lost), "e.g.": lost[:3]}, "all %d pages" % BIG_N)
            if newer:
                acc.violation("no_post_backup_version_survives", case, {"pages_with_a_later_version": len(newer), "e.g.": {t: pages[t] for t in newer[:2]}},
                              "content at backup time")
        finally:
            shutil.rmtree(base, ignore_errors=True)
    acc.sample({"flow": "big-uncommitted-transaction", "database_file": how})
    return acc


def main(run):
    thorough = run.tier == "thorough"
    chunks = [(f, thorough) for f in FLOWS]
    for cid, acc, hung in run_chunks(work, chunks, nproc=run.nproc, case_timeout=120):
        run.acc.merge(acc)
    for cid, acc, hung in run_chunks(work_big, [("big", h) for h in ("fresh-path", "preexisting-empty-file", "default-temporary")],
                                     nproc=run.nproc, case_timeout=120):
        run.acc.merge(acc)
    c = run.acc.counters
    cov = {
        "distinct_nontrivial": len(run.acc.sets.get("images", ())),
        "kill_points_enumerated": c["line_events_phase1"] + c["line_events_phase2"] + c["line_events_double"],
        "rule": "3 ways of creating the database file x 4 kill points inside a write transaction larger than SQLite's page cache (after a completed backup and a committed overwrite); 11 flows (3 flows without any backup where committed pages are followed by close_db_conn() with an unfinished get_all_pages() iteration or with a second context still open; 4 override flows + 2 flows with two backups taken by one context and small commits in between + 2 flows where the backup is taken while a second context on the same file is half-way through get_all_pages() and holds an older read snapshot; database clean / with committed content pending in the write-ahead log x override set with / without a "
                "template, i.e. both branches of analyze_and_overwrite_pages); every executed source line of core.py and dumpparser.py "
                "during open+backup+overwrite+commit+close and during the restoring re-open is a kill point; distinct on-disk states "
                "(content hash of the directory) are the crash images, which is sound because recovery is a function of the files; for "
                "every first-phase image every kill point of the following restoring open is enumerated too%s. evaluations = images "
                "opened and judged; distinct = distinct (double-fault) images."
                % ("; every distinct first-phase image is cross-checked against a forked child really killed by os._exit at that event" if thorough else ""),
        "exhaustive": True,
    }
    assumptions = [
        "a killed process loses nothing that it has handed to the OS (files are what survives); power loss / torn sectors are outside the property",
        "kill points are Python source lines of the two anchored files; syscall-level points inside one sqlite3 call are not split further",
    ]
    return run.finish(cov, assumptions, replay_fn=None)
