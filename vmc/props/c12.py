"""C12  Dump ingestion stores exactly the selected pages, byte for byte.

Bounded exhaustive exploration against a dict reference store: generated
.xml.bz2 dumps fed to the real parse_dump_xml() + add_default_templates():
the full product namespace x title shape x body shape x content model x
redirect for single-page dumps, every namespace x selection set, and every
ordered pair of a collision catalogue.
"""
from __future__ import annotations

import bz2
import itertools
import os
import re
import shutil
from xml.sax.saxutils import escape, quoteattr

from ..fixtures import close_ctx, new_ctx, scratch_dir
from ..pool import run_chunks
from ..runner import Acc

PROP = "C12"
LEVEL = "exploration"

TITLES = ["Foo", "foo bar", "Ünï/sub", "A:B c", "Foo/documentation", "Foo/testcases/x", "Foo/documentation/x",
          "a&b<c>\"d\"", "Main:Foo", "Foo/testcases2", "Foo/testcases", "Foo/mytestcases", "Foo/documentation2", "testcases"]
BODIES = ["x", " lead", "trail \n", "\n\nblank\n\n", "a&amp;b <tag> ]]> & \"q\"", "",
          "<noinclude>doc</noinclude>body<includeonly>inc</includeonly>", "<!-- c -->t<onlyinclude>only</onlyinclude>u",
          "a\r\nb", "\tt", "x<noinclude>unclosed",
          "a\n<!-- c -->\nb", "a\n <!--c--> \nb", "a\n<!--c-->b\n<!--d-->", "<!-- first -->\na<!--m-->\n",
          # sections that exist but are empty: the includable part is empty, not the whole page
          "<onlyinclude></onlyinclude>This template is intentionally blank.", "a<onlyinclude/>b",
          "<onlyinclude></onlyinclude>a<onlyinclude>k</onlyinclude>",
          # an unclosed <noinclude> takes the rest of the page with it, final newline included
          "A<noinclude>\n[[Category:X]]\n", "A<noinclude>x</noinclude>B<noinclude>\ndoc\n\n"]
MODELS = ["wikitext", "Scribunto", "json", "css", "javascript", "sanitized-css"]
KEPT_MODELS = {"wikitext", "Scribunto", "json"}
DEFAULTS = {"Template:!": "|", "Template:=": "=", "Template:((": "&lbrace;&lbrace;", "Template:))": "&rbrace;&rbrace;"}


def xml_text(s):
    return escape(s).replace("\r", "&#13;")


def make_dump(pages):
    out = ['<mediawiki xmlns="http://www.mediawiki.org/xml/export-0.10/" version="0.10" xml:lang="en">\n'
           "<siteinfo><sitename>W</sitename></siteinfo>\n"]
    for i, p in enumerate(pages):
        out.append("<page>\n<title>%s</title>\n<ns>%d</ns>\n<id>%d</id>\n" % (xml_text(p["title"]), p["ns"], i + 1))
        if p.get("redirect") is not None:
            out.append("<redirect title=%s />\n" % quoteattr(p["redirect"]))
        out.append("<revision><id>%d</id><model>%s</model><format>text/x-wiki</format>" % (i + 100, p["model"]))
        out.append('<text bytes="%d" xml:space="preserve">%s</text></revision>\n</page>\n' % (len(p["body"]), xml_text(p["body"])))
    out.append("</mediawiki>\n")
    return "".join(out).encode("utf-8")


def strip_comments(text):
    """Closed comments are cut out; a comment that stands alone on its line (only blanks before and after it on that line) takes
    the whole line with it, so that no empty line is left behind (MediaWiki's rule; written as a scan, not as a regex)."""
    out, pos = [], 0
    while True:
        a = text.find("<!--", pos)
        b = text.find("-->", a + 4) if a >= 0 else -1
        if a < 0 or b < 0:
            out.append(text[pos:])
            return "".join(out)
        ls = a
        while ls > pos and text[ls - 1] in " \t":
            ls -= 1
        at_line_start = (ls == 0) or text[ls - 1] == "\n"
        le = b + 3
        while le < len(text) and text[le] in " \t":
            le += 1
        if at_line_start and ls >= pos and le < len(text) and text[le] == "\n":
            out.append(text[pos:ls])
            pos = le + 1
        else:
            out.append(text[pos:a])
            pos = b + 3


def includable(text):
    """Reference for the includable part of a template body (statement of C04/C12)."""
    text = strip_comments(text)
    text = re.sub(r"(?is)<noinclude\s*>.*?</noinclude\s*>", "", text)
    text = re.sub(r"(?is)<noinclude\s*>.*", "", text)
    text = re.sub(r"(?s)<!--.*", "", text)
    only = list(re.finditer(r"(?is)<onlyinclude\s*>(.*?)</onlyinclude\s*>|<onlyinclude\s*/>", text))
    if only:
        text = "".join(m.group(1) or "" for m in only)
    text = re.sub(r"(?is)<\s*/?\s*includeonly\s*/?\s*>", "", text)
    return text


def ref_store(pages, selected, template_ns=10):
    store = {}
    for p in pages:
        t, ns = p["title"], p["ns"]
        if ns not in selected or t.endswith("/documentation") or "/testcases" in t:
            continue
        if p.get("redirect") is not None:
            store[(t, ns)] = (t, ns, None, p["model"], p["redirect"])
            continue
        if p["model"] not in KEPT_MODELS:
            continue
        body = includable(p["body"]) if ns == template_ns else p["body"]
        store[(t, ns)] = (t, ns, body, p["model"], None)
    for t, b in DEFAULTS.items():
        if template_ns is not None and (t, template_ns) not in store:
            store[(t, template_ns)] = (t, template_ns, b, "wikitext", None)
    return store


def ingest(ctx, path, pages, selected):
    from wikitextprocessor.dumpparser import add_default_templates, parse_dump_xml

    with open(path, "wb") as f:
        f.write(bz2.compress(make_dump(pages)))
    ctx.db_conn.execute("DELETE FROM pages")
    type(ctx).get_page.cache_clear()
    parse_dump_xml(ctx, path, set(selected))
    add_default_templates(ctx)
    return {(x.title, x.namespace_id): (x.title, x.namespace_id, x.body, x.model, x.redirect_to) for x in ctx.get_all_pages()}


def check(ctx, path, pages, selected):
    try:
        got = ingest(ctx, path, pages, selected)
    except Exception as e:
        return [("no_exception", type(e).__name__ + ": " + str(e)[:100], "ingests")]
    want = ref_store(pages, selected)
    if got == want:
        return []
    out = []
    lost = sorted(set(want) - set(got), key=str)
    extra = sorted(set(got) - set(want), key=str)
    changed = sorted((k for k in set(got) & set(want) if got[k] != want[k]), key=str)
    if lost or extra:
        main_prefix = any(t.startswith("Main:") and ns == 0 for (t, ns) in lost)
        out.append(("main_prefix_title_kept" if main_prefix else "exactly_the_selected_pages",
                    {"lost": lost[:4], "extra": extra[:4]}, "store == reference"))
    if changed:
        out.append(("page_fields_exact", [[list(got[k]), list(want[k])] for k in changed[:3]], "identical fields"))
    return out


def replay(case):
    ctx = new_ctx()
    d = scratch_dir("c12r")
    try:
        res = check(ctx, os.path.join(d, "x.xml.bz2"), case["pages"], case["selected"])
    finally:
        close_ctx(ctx)
        shutil.rmtree(d, ignore_errors=True)
    return [{"oracle": o, "observed": ob, "expected": ex} for o, ob, ex in res]


def ns_table(ctx):
    return {d["id"]: d["name"] for d in ctx.NAMESPACE_DATA.values()}


def work(payload, skip, report):
    acc = Acc(PROP)
    kind = payload[0]
    ctx = new_ctx()
    d = scratch_dir("c12")
    path = os.path.join(d, "x.xml.bz2")
    names = ns_table(ctx)
    i = 0
    if kind == "single":
        _, nss, selected = payload
        for ns in nss:
            prefix = names[ns] + ":" if ns != 0 else ""
            for t0, b, m, red in itertools.product(TITLES, BODIES, MODELS, (None, "Target page")):
                page = {"title": prefix + t0, "ns": ns, "body": b, "model": m}
                if red is not None:
                    page["redirect"] = red
                report(i)
                i += 1
                res = check(ctx, path, [page], selected)
                acc.case()
                acc.distinct("pages", page)
                for o, ob, ex in res:
                    acc.violation(o, {"pages": [page], "selected": selected}, ob, ex)
            acc.sample({"namespace": ns, "prefix": prefix})
    elif kind == "select":
        _, nss, sels = payload
        for ns in nss:
            prefix = names[ns] + ":" if ns != 0 else ""
            for sel in sels:
                for t0 in TITLES[:3]:
                    page = {"title": prefix + t0, "ns": ns, "body": "x", "model": "wikitext"}
                    report(i)
                    i += 1
                    res = check(ctx, path, [page], sel)
                    acc.case()
                    for o, ob, ex in res:
                        acc.violation(o, {"pages": [page], "selected": sel}, ob, ex)
    else:
        _, pairs, selected = payload
        for seq in pairs:
            seq = list(seq)
            report(i)
            i += 1
            res = check(ctx, path, seq, selected)
            acc.case()
            acc.distinct("pages", seq)
            for o, ob, ex in res:
                acc.violation(o, {"pages": seq, "selected": selected}, ob, ex)
        acc.sample({"pair": pairs[0] if pairs else None})
    close_ctx(ctx)
    shutil.rmtree(d, ignore_errors=True)
    return acc


def catalogue():
    c = []
    for title, ns in (("Foo", 0), ("Template:Foo", 10), ("Module:Foo", 828), ("Category:Foo", 14), ("Template:foo", 10),
                      ("Template:!", 10), ("Template:=", 10), ("Template:((", 10), ("Template:))", 10), ("Foo bar", 0),
                      ("Template:Foo bar", 10), ("Appendix:Foo", 100)):
        for body in ("one", "two<noinclude>d</noinclude>"):
            c.append({"title": title, "ns": ns, "body": body, "model": "Scribunto" if ns == 828 else "wikitext"})
    c.append({"title": "Template:Foo", "ns": 10, "body": "", "model": "wikitext", "redirect": "Template:Foo bar"})
    c.append({"title": "Foo", "ns": 0, "body": "", "model": "wikitext", "redirect": "Foo bar"})
    c.append({"title": "Template:Foo/documentation", "ns": 10, "body": "doc", "model": "wikitext"})
    c.append({"title": "Module:Foo/testcases", "ns": 828, "body": "tc", "model": "Scribunto"})
    # pages that are filtered out for their content model or namespace, and redirects written the way dumps have them:
    # in a sequence nothing of a skipped page may reach the next stored one
    c.append({"title": "Template:Foo/styles.css", "ns": 10, "body": ".c { color: red }", "model": "sanitized-css"})
    c.append({"title": "MediaWiki:Common.js", "ns": 8, "body": "alert(1)", "model": "javascript"})
    c.append({"title": "Module:Foo/data.json", "ns": 828, "body": "{\"k\": 1}", "model": "json"})
    c.append({"title": "Template:Bar", "ns": 10, "body": "#REDIRECT [[Template:Foo bar]]", "model": "wikitext",
              "redirect": "Template:Foo bar"})
    # a page NAME that begins with "Main:" outside the main namespace, next to the page without it
    c.append({"title": "Template:Main:Foo", "ns": 10, "body": "main-foo", "model": "wikitext"})
    c.append({"title": "Module:Main:Foo", "ns": 828, "body": "return 1", "model": "Scribunto"})
    c.append({"title": "Template:Baz.css", "ns": 10, "body": "#REDIRECT [[Template:Foo/styles.css]]", "model": "css",
              "redirect": "Template:Foo/styles.css"})
    return c


def short_catalogue():
    """One page of each behaviour (stored, template with noinclude, module, redirect, the filtered kinds) for ordered triples."""
    c = catalogue()
    keep = ["Foo", "Template:Foo", "Module:Foo", "Template:Foo/documentation", "Template:Foo/styles.css", "MediaWiki:Common.js",
            "Template:Bar", "Template:Baz.css", "Module:Foo/data.json"]
    out = []
    for t in keep:
        out.append([p for p in c if p["title"] == t][-1])
    return out


def main(run):
    q = run.tier == "quick"
    ctx = new_ctx()
    all_ns = sorted(ns_table(ctx))
    close_ctx(ctx)
    all_ns = [n for n in all_ns if n >= 0]
    sel_main = [0, 10, 828, 14, 100]
    chunks = []
    for ns in all_ns:
        chunks.append(("single", [ns], sel_main + ([ns] if ns % 2 == 0 else [])))
    sels = [[0], [10, 828], all_ns, [n for n in all_ns if n % 2 == 1]]
    for k in range(8):
        chunks.append(("select", all_ns[k::8], sels))
    cat = catalogue()
    pairs = list(itertools.product(cat, repeat=2))
    for k in range(16):
        chunks.append(("pairs", pairs[k::16], sel_main))
    triples = list(itertools.product(short_catalogue(), repeat=3))
    if q:
        triples = [t for t in triples if t[1]["model"] not in ("wikitext", "Scribunto") or t[1]["ns"] == 8]
    for k in range(16):
        chunks.append(("pairs", triples[k::16], sel_main))
    for cid, acc, hung in run_chunks(work, chunks, nproc=run.nproc, case_timeout=60):
        run.acc.merge(acc)
    cov = {
        "distinct_nontrivial": len(run.acc.sets.get("pages", ())),
        "rule": "single-page dumps: %d namespaces of the en data x %d title shapes (plain, blank, Unicode+slash, colon inside, /documentation, "
                "/testcases/x, /documentation/x, /testcases, /testcases2, /mytestcases, /documentation2, bare 'testcases', XML-special characters, Main: pseudo-prefix) x %d body shapes (XML specials, leading/trailing "
                "blank lines, tabs, empty, ]]>, inclusion tags, comments, CR-LF as &#13;, unclosed noinclude) x 6 content models x "
                "redirect yes/no; every namespace x 4 selection sets; every ordered pair of a %d-page collision catalogue (same title in "
                "several namespaces, duplicates, first-letter case twins, the four default-template names, redirects, pages filtered for their "
                "content model or namespace) and ordered triples of a 9-page short catalogue (quick: those whose middle page is filtered). distinct = distinct "
                "generated page descriptions." % (len([c for c in chunks if c[0] == "single"]), len(TITLES), len(BODIES), len(cat)),
        "exhaustive": True,
    }
    assumptions = [
        "dump titles carry their namespace prefix (as real dumps do); init_interwiki_map (network) is not part of the property",
        "a raw CR in XML is normalised by any XML parser, so CR is written as &#13;",
    ]
    return run.finish(cov, assumptions, replay_fn=replay)
