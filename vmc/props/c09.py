"""C09  Processing a page does not depend on what the context processed before.

Model checking over operation histories: every history of <= N events (process
a corpus page by parse / expand / parse(expand_all); create and close another
context with a different option set; start_section) is rebuilt from scratch on a
real context over one committed database, and the last event's observation
(tree dump / expansion / recorded messages) must equal the observation of that
event alone on a fresh context on the same database.  Lua state channels
(globals, module-level state, library tables, string metatable, mw.*,
mw.loadData tables, NAMESPACE_DATA) additionally have absolute expectations.
"""
from __future__ import annotations

import itertools
import os
import shutil

from ..fixtures import USTRING, close_ctx, new_ctx, scratch_dir
from ..pool import run_chunks
from ..runner import Acc
from ..treeutil import dump

PROP = "C09"
LEVEL = "model_checking"

CHANNELS = {
    "global": ("leak_g = 'L'", "tostring(rawget(_G, 'leak_g'))"),
    "string_table": ("string.leak = 'L'", "tostring(string.leak)"),
    "string_metatable": ("getmetatable('').__index.leakm = 'L'", "tostring(('x').leakm)"),
    "table_lib": ("table.leak = 'L'", "tostring(table.leak)"),
    "math_lib": ("math.leak = 'L'", "tostring(math.leak)"),
    "mw": ("mw.leak = 'L'", "tostring(mw.leak)"),
    "mw_text": ("mw.text.leak = 'L'", "tostring(mw.text.leak)"),
    "require_mw_text": ("require('mw_text').leak2 = 'L'", "tostring(require('mw_text').leak2)"),
    "loaddata": ("mw.loadData('Module:data').leak = 'L'", "tostring(mw.loadData('Module:data').leak)"),
    "namespace_data": ("NAMESPACE_DATA.leak = 'L'", "tostring(NAMESPACE_DATA.leak)"),
    "module_state": ("require('Module:state').set('L')", "tostring(require('Module:state').get())"),
    "os_table": ("os.leak = 'L'", "tostring(os.leak)"),
    # the sandbox's own helpers are visible to page code: what they hand out must not let a page break the next one
    "shared_env_metatable": ("local e = _lua_reset_env and _lua_reset_env() if type(e) == 'table' then pcall(setmetatable, e, {__metatable = false, __index = function() return 'L' end}) end",
                             "tostring(rawget(_G, 'leak_never_set'))"),
    # a helper module whose initialisation raised once (because of something the requiring page set) loads normally later
    "failed_require": ("picky_refuse = true pcall(require, 'Module:picky')",
                       "(function() picky_refuse = nil local ok, r = pcall(require, 'Module:picky') return ok and tostring(r.v) or ('load failed: ' .. tostring(r)) end)()"),
    "shared_env_field": ("local e = _lua_reset_env and _lua_reset_env() if type(e) == 'table' then e.leak_e = 'L' end", "tostring(rawget(_G, 'leak_e'))"),
}


def helper_module():
    parts = ["local e = {}", "function e.ok(frame) return 'ok' .. (frame.args[1] or '') end",
             "function e.err(frame) error('boom') end"]
    for name, (mut, probe) in CHANNELS.items():
        parts.append("function e.mutate_%s(frame) %s return 'm' end" % (name, mut))
        parts.append("function e.probe_%s(frame) return %s end" % (name, probe))
    # runs for a good second of wall-clock time (far inside the default limit) and millions of VM instructions
    parts.append("function e.longish(frame) local t0 = os.time() local n = 0 while os.time() - t0 < 2 do n = n + 1 end return 'finished' end")
    parts.append("function e.reqglobal(frame) return require('Module:gstate').get() end")
    parts.append("return e")
    return "\n".join(parts)


STATE_MOD = "local v = 'nil'\nlocal e = {}\nfunction e.set(x) v = x end\nfunction e.get() return v end\nreturn e"
GSTATE_MOD = "gcounter = (gcounter or 0) + 1\nlocal e = {}\nfunction e.get() gcalls = (gcalls or 0) + 1 return tostring(gcounter) .. '/' .. tostring(gcalls) end\nreturn e"
COUNT_MOD = "local counter = 0\nlocal e = {}\nfunction e.count(frame) counter = counter + 1 return tostring(counter) end\nreturn e"

PAGES = {
    "soup1": "'''a\n{|\n|x\n<pre>z",
    "soup2": "==h==\n* a\n** b\n<foo>bar</foo> <b>x\n[[l|''i]]",
    "deflist": ";t:d\n:x\n{{a|1}}",
    "templates": "{{a|x}}{{n|k=v}}{{#if:1|{{a|y}}}}{{missing}}<nowiki>{{a}}</nowiki>",
    "loop": "{{loop}} {{a|z}}",
    "inv_ok": "{{#invoke:h|ok|1}}",
    "inv_err": "{{#invoke:h|err}} {{#invoke:h|ok|2}}",
    "count": "{{#invoke:cnt|count}}",
    # an invocation whose argument NAME is computed by another invocation of the same stateful module
    "count_named": "{{#invoke:cnt|count|{{#invoke:cnt|count}}=v}}",
    "alias": "{{#myalias:1|y|n}} {{ovr|q}}",
    "reqglobal": "{{#invoke:h|reqglobal}} {{#invoke:h|reqglobal}}",
    "nw_in_template": "{{nw|p}} and <nowiki>''q''</nowiki>",
    "nw_in_template2": "<nowiki>first</nowiki>{{nw}}{{a|<nowiki>|</nowiki>}}",
    "open_pre": "an example:\n<pre>\nfoo(bar)\n",
    "inv_longish": "{{#invoke:h|longish}}",
    # nested far beyond what the parser can follow: the call raises RecursionError (or reports the depth limit); whatever it
    # was in the middle of must not be left behind for the next page
    "too_deep": "{{a|" * 600 + "x" + "}}" * 600,
    "too_deep_links": "* [[a|" * 400 + "x" + "]]" * 400,
}
for _c in CHANNELS:
    PAGES["chan_" + _c] = "{{#invoke:h|probe_%s}}{{#invoke:h|mutate_%s}}{{#invoke:h|probe_%s}}" % (_c, _c, _c)

LIB = {"Template:nw": "N<nowiki>[[x]] {{a}}</nowiki>{{{1|}}}", "Template:a": "A[{{{1|}}}]", "Template:n": "N[{{{k|d}}}]", "Template:loop": "{{loop}}", "Template:ovr": "OVR-PAGE"}

OTHER_CTX = {
    "extension_tags": {"extension_tags": {"foo": {"parents": ["phrasing"], "content": ["phrasing"]}}},
    "parser_function_aliases": {"parser_function_aliases": {"#myalias": "#if"}},
    "template_override_funcs": {"template_override_funcs": {"ovr": lambda args: "OVERRIDDEN"}},
    "lang_fr": {"lang_code": "fr"},
    "project_wikipedia": {"project": "wikipedia"},
}


OPTION_OPS = {
    "expand_timeout_half_second": ("expand", {"timeout": 0.5}),
    "expand_timeout_one_second": ("expand", {"timeout": 1}),
    "parse_pre_expand": ("parse", {"pre_expand": True}),
    "parse_additional_empty": ("parse", {"additional_expand": set()}),
    "parse_additional_a": ("parse", {"additional_expand": {"a"}}),
    "parse_additional_a_pre_not_n": ("parse", {"additional_expand": {"a"}, "pre_expand": True, "do_not_pre_expand": {"n"}}),
    "expand_pre_a": ("expand", {"pre_expand": True, "templates_to_expand": {"a"}}),
    "expand_pre_none": ("expand", {"pre_expand": True, "templates_to_expand": set()}),
    "expand_no_parserfns": ("expand", {"expand_parserfns": False, "expand_invoke": False}),
}


def events(tier):
    ev = []
    for p in PAGES:
        ev.append(("page", p, "expand"))
    for p in ("soup1", "soup2", "deflist", "templates", "too_deep", "too_deep_links"):
        ev.append(("page", p, "parse"))
    for p in ("templates", "inv_ok", "soup2", "nw_in_template"):
        ev.append(("page", p, "parse_expand_all"))
    # the rarely used option combinations of parse() / expand(): whatever they set up for themselves must be gone afterwards
    for p in ("templates", "nw_in_template"):
        for op in OPTION_OPS:
            if not op.startswith("expand_timeout"):
                ev.append(("page", p, op))
    # a limit given to one call belongs to that call
    ev.append(("page", "inv_ok", "expand_timeout_half_second"))
    ev.append(("page", "inv_ok", "expand_timeout_one_second"))
    # a further call on the SAME page (no start_page in between): what one parse()/expand() call sets up for itself must be
    # gone when the next one starts (the messages of the page accumulate, so only result and path are compared)
    for p in ("soup1", "soup2", "deflist", "open_pre"):
        ev.append(("same_page", p, "parse"))
    ev.append(("same_page", "templates", "expand"))
    for o in OTHER_CTX:
        ev.append(("other_ctx", o))
    ev.append(("start_section", "Sec"))
    return ev


def make_db(d):
    path = os.path.join(d, "c09.db")
    ctx = new_ctx(db_path=path)
    ctx.add_page("Module:ustring:ustring", 828, USTRING, model="Scribunto")
    for t, b in LIB.items():
        ctx.add_page(t, 10, b)
    ctx.add_page("Module:h", 828, helper_module(), model="Scribunto")
    ctx.add_page("Module:state", 828, STATE_MOD, model="Scribunto")
    ctx.add_page("Module:cnt", 828, COUNT_MOD, model="Scribunto")
    ctx.add_page("Module:gstate", 828, GSTATE_MOD, model="Scribunto")
    ctx.add_page("Module:data", 828, "return {a = 1}", model="Scribunto")
    ctx.add_page("Module:picky", 828, "if picky_refuse then error('refused') end\nreturn {v = 'P'}", model="Scribunto")
    ctx.add_page("Module:_sandbox_phase1", 828, "", model="Scribunto")
    ctx.db_conn.commit()
    ctx.close_db_conn()
    return path


def msgs(ctx):
    r = ctx.to_return()
    return {k: [(m["msg"][:80], m["called_from"], m["section"]) for m in v] for k, v in r.items() if v}


def apply_event(ctx, ev):
    """Executes one event; returns its observation (JSON-able)."""
    if ev[0] == "same_page":
        _, p, op = ev
        if ctx.title is None:
            ctx.start_page("Tt first")
        try:
            out = dump(ctx.parse(PAGES[p])) if op == "parse" else ctx.expand(PAGES[p])
            if op == "parse" and isinstance(out, list) and out[:1] == ["ROOT"]:
                out = ["ROOT"] + out[2:]     # the root carries the title of whatever page is current
        except Exception as e:
            out = "EXC " + type(e).__name__ + ": " + str(e)[:80]
        return {"result": out, "expand_stack": list(ctx.expand_stack)[1:]}
    if ev[0] == "page":
        _, p, op = ev
        ctx.start_page("Tt " + p)
        text = PAGES[p]
        try:
            if op == "expand":
                out = ctx.expand(text)
            elif op == "parse":
                out = dump(ctx.parse(text))
            elif op in OPTION_OPS:
                fn, kw = OPTION_OPS[op]
                out = dump(ctx.parse(text, **kw)) if fn == "parse" else ctx.expand(text, **kw)
            else:
                out = dump(ctx.parse(text, expand_all=True))
        except Exception as e:
            out = "EXC " + type(e).__name__ + ": " + str(e)[:80]
        return {"result": out, "messages": msgs(ctx), "expand_stack": list(ctx.expand_stack)}
    if ev[0] == "other_ctx":
        c2 = new_ctx(**OTHER_CTX[ev[1]])
        c2.start_page("Other")
        c2.expand("x")
        close_ctx(c2)
        return {"other": ev[1]}
    ctx.start_section(ev[1])
    return {"section": ev[1]}


def run_history(dbpath, hist):
    ctx = new_ctx(db_path=dbpath)
    obs = None
    try:
        for ev in hist:
            obs = apply_event(ctx, ev)
    finally:
        try:
            ctx.db_conn.close()
        except Exception:
            pass
    return obs


def in_child(fn, *a):
    """Runs fn(*a) in a forked child (process-global state of the library stays pristine in the caller)."""
    import json as _json
    r, w = os.pipe()
    pid = os.fork()
    if pid == 0:
        try:
            os.close(r)
            try:
                res = ("ok", fn(*a))
                data = _json.dumps(res, default=str)
            except RecursionError:
                # a tree too deep to serialise: flatten it iteratively (same information, no nesting)
                flat, stack = [], [res[1]]
                while stack:
                    x = stack.pop()
                    if isinstance(x, dict):
                        stack.extend(sorted(x.items(), key=str))
                    elif isinstance(x, (list, tuple)):
                        flat.append("[%d" % len(x))
                        stack.extend(reversed(x))
                    else:
                        flat.append(str(x))
                data = _json.dumps(("ok", {"result": "FLAT " + " ".join(flat)[:20000]}))
            except BaseException as e:  # noqa: BLE001
                data = _json.dumps(("exc", type(e).__name__ + ": " + str(e)[:200]))
            with os.fdopen(w, "w") as f:
                f.write(data)
        finally:
            os._exit(0)
    os.close(w)
    with os.fdopen(r) as f:
        data = f.read()
    os.waitpid(pid, 0)
    kind, val = _json.loads(data) if data else ("exc", "child died")
    if kind == "exc":
        return {"result": "EXC(child) " + val}
    return val


CLEAN = {"failed_require": "P"}


def expected_channel_output(name=None):
    # probe before, mutate, probe after inside one page: each invocation starts from a pristine environment
    c = CLEAN.get(name, "nil")
    return c + "m" + c


def work(payload, skip, report):
    if payload[0] == "ctxopts":
        return work_ctx(payload, skip, report)
    acc = Acc(PROP)
    tier, prefixes, depth, alone_list = payload
    d = scratch_dir("c09")
    dbpath = make_db(d)
    evs = events(tier)
    alone = {tuple(k): v for k, v in alone_list}
    st, tr = set(), set()
    i = 0
    try:
        for pre in prefixes:
            for rest in itertools.product(evs, repeat=depth - len(pre)):
                hist = list(pre) + list(rest)
                last = hist[-1]
                if last[0] not in ("page", "same_page"):
                    continue   # only page events are observed
                if any(e[:2] == ("page", "inv_longish") for e in hist[:-1]):
                    continue   # (two seconds each: only observed, never used as history)
                report(i)
                i += 1
                got = in_child(run_history, dbpath, hist)
                acc.case()
                st.add(hash(tuple(hist[:-1])))
                tr.add(hash(tuple(hist)))
                case = {"history": [list(e) for e in hist]}
                want = alone[last]
                if got != want:
                    # a preceding start_section legitimately does not survive start_page; messages carry the section
                    diff = {k: (got.get(k), want.get(k)) for k in got if got.get(k) != want.get(k)}
                    oracle = "history_independent"
                    prior = [e[1] for e in hist[:-1] if e[0] in ("page", "other_ctx")]
                    if last[1].startswith("chan_") and any(p == last[1] for p in prior):
                        oracle = "lua_state_isolated:" + last[1][5:]
                    elif any(e[0] == "other_ctx" for e in hist[:-1]) and not any(e[0] == "page" for e in hist[:-1]):
                        oracle = "independent_of_other_contexts:" + [e[1] for e in hist[:-1] if e[0] == "other_ctx"][0]
                    acc.violation(oracle, case, {k: str(v[0])[:200] for k, v in diff.items()}, {k: str(v[1])[:200] for k, v in diff.items()})
                if len(hist) == 1 and last[2] == "expand":
                    if last[1].startswith("chan_") and got["result"] != expected_channel_output(last[1][5:]):
                        acc.violation("lua_invocations_isolated_within_page:" + last[1][5:], case, got["result"], expected_channel_output(last[1][5:]))
                    if last[1] == "reqglobal" and got["result"] != "1/1 1/1":
                        acc.violation("required_module_globals_reset", case, got["result"], "1/1 1/1")
                    if last[1] in ("count", "count_named") and got["result"] != "1":
                        acc.violation("module_level_state_reset", case, got["result"], "1")
                acc.distinct("observations", got)
                if i % 997 == 1:
                    acc.sample(case)
    finally:
        shutil.rmtree(d, ignore_errors=True)
        from wikitextprocessor import Wtp
        Wtp.get_page.cache_clear()
    acc.sets["states"] = st
    acc.sets["transitions"] = tr
    return acc


# ---------------------------------------------------------------- histories of contexts with different options
# The observed context itself is created with one option set after contexts with other option sets (including the same
# extension tag name with different nesting data) have been created, used and closed in the same process.
CTX_OPTS = {
    "default": {},
    "foo_inline": {"extension_tags": {"foo": {"parents": ["phrasing"], "content": ["phrasing"]}}},
    "foo_block": {"extension_tags": {"foo": {"parents": ["flow"], "content": ["flow"]}}},
    "foo_void": {"extension_tags": {"foo": {"parents": ["phrasing"], "content": [], "no-end-tag": True}}},
    "span_block": {"extension_tags": {"span": {"parents": ["flow"], "content": ["flow"]}}},
    "alias_if": {"parser_function_aliases": {"#myalias": "#if"}},
    "alias_ifeq": {"parser_function_aliases": {"#myalias": "#ifeq"}},
    "lang_fr": {"lang_code": "fr"},
    "wikipedia": {"project": "wikipedia"},
}
CTX_PROBES = ["<foo>a<div>b</div>c</foo>", "<span>a<div>b</div>c</span> <foo>x", "{{#myalias:1|1|y|n}}", "<p>a<foo>b</foo>c</p>",
              "{{ns:Template}} {{int:x}} [[Category:c]]"]


def ctx_observe(opts_seq):
    """Creates, uses and closes a context for each option set but the last; returns what the last one observes."""
    obs = None
    for k, name in enumerate(opts_seq):
        c = new_ctx(**CTX_OPTS[name])
        c.add_page("Template:a", 10, "A[{{{1|}}}]")
        out = []
        for t in CTX_PROBES:
            c.start_page("Tt")
            try:
                out.append([dump(c.parse(t)), c.expand(t), msgs(c)])
            except Exception as e:
                out.append("EXC " + type(e).__name__ + ": " + str(e)[:80])
        close_ctx(c)
        obs = out
    return obs


def work_ctx(payload, skip, report):
    acc = Acc(PROP)
    _, seqs = payload
    for i, seq in enumerate(seqs):
        report(i)
        got = in_child(ctx_observe, list(seq))
        want = in_child(ctx_observe, [seq[-1]])
        acc.case()
        acc.distinct("observations", got)
        acc.count("context_option_histories")
        if got != want:
            diff = [j for j in range(len(CTX_PROBES)) if isinstance(got, list) and isinstance(want, list) and got[j] != want[j]]
            acc.violation("independent_of_earlier_contexts_options", {"contexts_created_in_order": list(seq), "probes": [CTX_PROBES[j] for j in diff]},
                          [str(got[j])[:300] for j in diff] if diff else str(got)[:300], [str(want[j])[:300] for j in diff] if diff else str(want)[:300])
    return acc


def replay(case):
    d = scratch_dir("c09r")
    try:
        dbpath = make_db(d)
        hist = [tuple(e) for e in case["history"]]
        got = in_child(run_history, dbpath, hist)
        want = in_child(run_history, dbpath, [hist[-1]])
    finally:
        shutil.rmtree(d, ignore_errors=True)
    out = []
    if got != want:
        out.append({"oracle": "history_independent", "observed": {k: str(v)[:200] for k, v in got.items() if got.get(k) != want.get(k)},
                    "expected": {k: str(v)[:200] for k, v in want.items() if got.get(k) != want.get(k)}})
    return out


def baselines(tier):
    """Observation of every page event alone, each in its own pristine process."""
    d = scratch_dir("c09b")
    try:
        dbpath = make_db(d)
        out = []
        for e in events(tier):
            if e[0] in ("page", "same_page"):
                out.append((list(e), in_child(run_history, dbpath, [e])))
    finally:
        shutil.rmtree(d, ignore_errors=True)
    return out


def main(run):
    q = run.tier == "quick"
    evs = events(run.tier)
    maxd = 2 if q else 3
    alone = baselines(run.tier)
    chunks = [(run.tier, [()], 1, alone)]
    for e in evs:
        chunks.append((run.tier, [(e,)], 2, alone))
    if not q:
        for e1 in evs:
            for e2 in evs:
                chunks.append((run.tier, [(e1, e2)], 3, alone))
    names = list(CTX_OPTS)
    seqs = [(a, b) for a in names for b in names] + ([] if q else [(a, b, c) for a in names for b in names for c in names])
    for k in range(16):
        if seqs[k::16]:
            chunks.append(("ctxopts", seqs[k::16]))
    done = 0
    for cid, acc, hung in run_chunks(work, chunks, nproc=run.nproc, case_timeout=60):
        run.acc.merge(acc)
        done += 1
        if done % 200 == 0:
            run.log("chunks", done, "/", len(chunks), "histories", run.acc.n)
    states = len(run.acc.sets.pop("states", ()))
    trans = len(run.acc.sets.pop("transitions", ()))
    cov = {
        "states": states,
        "transitions": trans,
        "traces_validated_against_impl": run.acc.n,
        "distinct_nontrivial": len(run.acc.sets.get("observations", ())),
        "rule": "every history of <= %d events over a %d-event alphabet (%d corpus pages incl. token soups with unclosed constructs, a "
                "definition list, template-heavy and looping pages, benign / failing Lua, one page per Lua state channel (%d channels), "
                "each by expand and selected ones by parse / parse(expand_all); creating and closing another context with each of %d "
                "option sets; start_section) that ends in a page event; every history is rebuilt from scratch on a new context over "
                "one committed database file; states = distinct prefixes, transitions = distinct histories; the oracle is the "
                "observation of the last event alone on a fresh context; plus every sequence of %d contexts over %d option sets (same "
                "extension tag name with inline / block / void data, a built-in tag overridden, two meanings of one parser-function "
                "alias, language, project) created, used and closed in one process, the last one compared with itself alone" % (maxd, len(evs), len(PAGES), len(CHANNELS), len(OTHER_CTX), 2 if q else 3, len(CTX_OPTS)),
        "exhaustive": True,
        "bound": "history length <= %d" % maxd,
    }
    assumptions = [
        "observation = result (tree dump or expansion), message lists (text, source id, section) and the expansion path",
        "within one page each Lua invocation must start from a pristine environment (absolute expectation for the channel pages)",
    ]
    return run.finish(cov, assumptions, replay_fn=None)
