"""C15  nowiki content and comments are inert and recoverable.

Bounded exhaustive exploration: every nowiki content c of <= k tokens over the
token alphabet (without the closing tag) x 5 embeddings x {expand, parse};
every comment  x <!--c'--> y  with x, y <= 1 token and c' <= 2 tokens.
"""
from __future__ import annotations

import html
import itertools

from ..fixtures import close_ctx, new_ctx
from ..pool import run_chunks
from ..runner import Acc
from ..treeutil import CORE, TOKENS, K, dump

PROP = "C15"
LEVEL = "exploration"

# Own copy of the documented nowiki entity table (common.py "Mappings performed
# for text inside <nowiki>").
QUOTE = {
    "=": "&equals;", "<": "&lt;", ">": "&gt;", "*": "&ast;", "#": "&num;", ":": "&colon;", "!": "&excl;",
    "|": "&vert;", "[": "&lsqb;", "]": "&rsqb;", "{": "&lbrace;", "}": "&rbrace;", '"': "&quot;", "'": "&apos;",
    "_": "&#95;",
}
NW_TOKENS = [t for t in TOKENS if "</nowiki" not in t] + ["{{t|x}}", "&"]
NW_TOKENS.remove("&")
NW_CORE = [t for t in CORE if "</nowiki" not in t] + ["{{t|x}}"]
EMBED = ["top", "arg", "link", "item", "cell", "pagestart", "linestart", "cell_own_line", "after_link", "after_bold",
         "top:upper", "arg:upper", "pagestart:mixed", "item:blank", "link:mixed"]
CM_TOKENS = [t for t in TOKENS if t not in ("-->", "<!--", "<nowiki>")]
# (a comment that contains a nowiki start tag still begins outside nowiki: the comment wins, as in MediaWiki)
CM_INNER = [t for t in CORE if t not in ("-->",)] + ["{{t|x}}"] + (["<nowiki>"] if "<nowiki>" not in CORE else [])
CM_PAIR_Q = ["a", "\n", "{{", "}}", "|", "[[", "<b>", "<!--"]
CM_PAIR_T = CM_PAIR_Q + ["]]", "==", "*", "</b>", "<pre>", "{|", "'''", " "]
PLACEHOLDER_INPUTS = ["<nowiki>a\U00102041</nowiki>", "<nowiki>\U00102042</nowiki>b", "x<nowiki>[\U00102041]</nowiki>"]


def ref_quote(c):
    return "".join(QUOTE.get(ch, ch) for ch in c)


def make_ctx():
    ctx = new_ctx()
    ctx.add_page("Template:t", 10, "[{{{1}}}]")
    ctx.add_page("Template:a", 10, "EXPANDED-A")
    ctx.db_conn.commit()
    return ctx


# tag spellings (tag names are case-insensitive; blanks are allowed before the closing angle bracket)
SPELLINGS = {"": ("<nowiki>", "</nowiki>"), "upper": ("<NOWIKI>", "</NOWIKI>"), "mixed": ("<NoWiki>", "</nowiki>"), "blank": ("<nowiki >", "</nowiki >")}


def embed(c, e):
    sp = ""
    if ":" in e:
        e, sp = e.split(":")
    nw = SPELLINGS[sp][0] + c + SPELLINGS[sp][1]
    if e == "top":
        return "x" + nw + "y"
    if e == "arg":
        return "{{t|" + nw + "}}"
    if e == "link":
        return "[[a|" + nw + "]]"
    if e == "pagestart":
        return nw
    if e == "linestart":
        return "p\n" + nw + "\nz"
    if e == "cell_own_line":
        return "{|\n|\n" + nw + "\n|}"
    if e == "item":
        return "*" + nw
    if e == "after_link":
        return "[[a]]" + nw       # not link trail
    if e == "after_bold":
        return "'''b'''" + nw
    return "{|\n|" + nw + "\n|}"


def check_nowiki(ctx, c, e):
    out = []
    q = ref_quote(c)
    if html.unescape(q) != c:
        raise AssertionError("reference table not invertible for %r" % c)
    text = embed(c, e)
    e = e.split(":")[0]
    calls = []

    def tf(name, args):
        calls.append(name)
        return None

    ctx.start_page("Tt")
    got = ctx.expand(text, template_fn=tf)
    want = {"top": "x" + q + "y", "arg": "[" + q + "]", "link": "[[a|" + q + "]]", "item": "*" + q,
            "cell": "{|\n|" + q + "\n|}", "pagestart": q, "linestart": "p\n" + q + "\nz",
            "cell_own_line": "{|\n|\n" + q + "\n|}", "after_link": "[[a]]" + q, "after_bold": "'''b'''" + q}[e]
    if got != want:
        out.append(("expand_quotes_exactly", got, want))
    exp_calls = ["t"] if e == "arg" else []
    if calls != exp_calls:
        out.append(("nothing_expanded_inside", calls, exp_calls))
    ctx.start_page("Tt")
    root = ctx.parse(text)
    d = dump(root)
    if e == "top":
        wantd = ["ROOT", {"largs": [["Tt"]]}, ["x" + q + "y"]]
    elif e == "arg":
        wantd = ["ROOT", {"largs": [["Tt"]]}, [["TEMPLATE", {"largs": [["t"], [q]]}]]]
    elif e == "link":
        wantd = ["ROOT", {"largs": [["Tt"]]}, [["LINK", {"largs": [["a"], [q]]}]]]
    elif e == "pagestart":
        wantd = ["ROOT", {"largs": [["Tt"]]}, [q]]
    elif e == "linestart":
        wantd = ["ROOT", {"largs": [["Tt"]]}, ["p\n" + q + "\nz"]]
    elif e == "cell_own_line":
        wantd = ["ROOT", {"largs": [["Tt"]]}, [["TABLE", [["TABLE_ROW", [["TABLE_CELL", ["\n" + q + "\n"]]]]]]]]
    elif e == "after_link":
        wantd = ["ROOT", {"largs": [["Tt"]]}, [["LINK", {"largs": [["a"]]}]] + ([q] if q else [])]
    elif e == "after_bold":
        wantd = ["ROOT", {"largs": [["Tt"]]}, [["BOLD", ["b"]]] + ([q] if q else [])]
    elif e == "item":
        wantd = ["ROOT", {"largs": [["Tt"]]}, [["LIST", {"sarg": "*"}, [["LIST_ITEM", {"sarg": "*"}, [q]]]]]]
    else:
        wantd = ["ROOT", {"largs": [["Tt"]]}, [["TABLE", [["TABLE_ROW", [["TABLE_CELL", [q + "\n"]]]]]]]]
    if d != wantd:
        out.append(("parse_single_text_node", d, wantd))
    # the same through the expanding parse modes (the text is expanded first and parsed afterwards): nothing of c may be
    # interpreted on the second pass either
    for label, mode in (("expand_all", {"expand_all": True}), ("pre_expand", {"pre_expand": True}),
                        # (without pre_expand a selection does not restrict anything: everything is expanded)
                        ("additional_expand", {"additional_expand": {"zz"}}),
                        ("additional_expand_other+pre_expand", {"additional_expand": {"zz"}, "pre_expand": True}),
                        ("additional_expand_t+pre_expand", {"additional_expand": {"t"}, "pre_expand": True})):
        ctx.start_page("Tt")
        try:
            d2 = dump(ctx.parse(text, **mode))
        except Exception as ex:
            d2 = "EXC " + type(ex).__name__
        want2 = wantd
        if e == "arg" and (mode.get("expand_all") or "t" in mode.get("additional_expand", ()) or not mode.get("pre_expand")):
            want2 = ["ROOT", {"largs": [["Tt"]]}, ["[" + q + "]"]]
        if d2 != want2:
            out.append(("parse_single_text_node:" + label, d2, want2))
    return text, out


def check_comment(ctx, x, cprime, y):
    out = []
    a = x + "<!--" + cprime + "-->" + y
    xs = x[:-1] if x.endswith("\n") else x
    b = xs + y
    ctx.start_page("Tt")
    ea = ctx.expand(a)
    ctx.start_page("Tt")
    eb = ctx.expand(b)
    if ea != eb:
        out.append(("comment_expand_equal", ea, eb))
    ctx.start_page("Tt")
    da = dump(ctx.parse(a))
    ctx.start_page("Tt")
    db = dump(ctx.parse(b))
    if da != db:
        out.append(("comment_parse_equal", da, db))
    return a, out


# Re-entrant use: a template_fn / post_template_fn hook that itself calls ctx.parse() or ctx.expand() while the outer
# parse() is running its expansion.  The outer result must be what it is with a passive hook, and the nested expand() must
# give what a top-level expand() of the same text gives.
RE_CONTENTS = ["----", ";a:b", " x", "*x", "[[a]]", "{{a}}", "''i''", "a_b", "<b>", "=h="]
RE_MODES = [("expand_all", {"expand_all": True}), ("pre_expand+additional", {"pre_expand": True, "additional_expand": {"a"}}),
            ("additional", {"additional_expand": {"a"}})]


def check_reentrant(ctx, c, label, mode, hook_kind, where):
    text = "{{a}}\n<nowiki>" + c + "</nowiki>\nz" if where == "before" else "p\n<nowiki>" + c + "</nowiki>{{a}}"
    nested = []

    def passive(name, args, *exp):
        return None

    def active(name, args, *exp):
        if hook_kind == "nested_parse":
            ctx.parse("q ''r''")
        else:
            nested.append(ctx.expand("<nowiki>" + c + "</nowiki>"))
        return None

    out = []
    ctx.start_page("Tt")
    want = dump(ctx.parse(text, template_fn=passive, **mode))
    for slot in ("template_fn", "post_template_fn"):
        ctx.start_page("Tt")
        try:
            got = dump(ctx.parse(text, **{slot: active}, **mode))
        except Exception as ex:
            got = "EXC " + type(ex).__name__ + ": " + str(ex)[:80]
        if got != want:
            out.append(("parse_with_reentrant_hook:" + label, got, want))
    if hook_kind == "nested_expand":
        ctx.start_page("Tt")
        top = ctx.expand("<nowiki>" + c + "</nowiki>")
        if any(n != top for n in nested):
            out.append(("nested_expand_quotes_exactly:" + label, nested[:2], top))
    return text, out


# --- nowiki inside constructs that are written back as text (two levels of stand-ins), with a later nowiki on the page ----
# Oracle by substitution: with an inert word as content the result is R; with content c it is R with the word replaced by
# the quoted c (or by c itself where the context is raw text): nothing of c changes anything around it.
EMBED2 = ["{{<nowiki/>t|[[a|%s]]}} <nowiki>y</nowiki>", "<pre>{{t|%s}} <nowiki>y</nowiki></pre>",
          '<span title="[[a|%s]] <nowiki>y</nowiki>">z</span>', "{{<nowiki/>t|{{{p|%s}}}}} <nowiki>y</nowiki>",
          "[[a|{{<nowiki/>t|%s}}]] %s", "{{zz|[[a|%s]]}} <nowiki>y</nowiki>", "%s {{<nowiki/>t|[[a|<nowiki>y</nowiki>]]}}",
          "{{<nowiki/>t|[[a|<nowiki>y</nowiki>]]}} %s"]
MARK = "QZQ"


def check_nowiki2(ctx, c, tmpl):
    import json as _json
    out = []
    q = ref_quote(c)

    def both(content):
        text = tmpl.replace("%s", "<nowiki>" + content + "</nowiki>")
        ctx.start_page("Tt")
        ex = ctx.expand(text)
        ctx.start_page("Tt")
        return text, ex, _json.dumps(dump(ctx.parse(text)), ensure_ascii=False)

    _, bex, bd = both(MARK)
    text, ex, d = both(c)
    jq = _json.dumps(q, ensure_ascii=False)[1:-1]
    jc = _json.dumps(c, ensure_ascii=False)[1:-1]
    if ex not in (bex.replace(MARK, q), bex.replace(MARK, c)):
        out.append(("expand_as_with_inert_content", ex, bex.replace(MARK, q)))
    if d not in (bd.replace(MARK, jq), bd.replace(MARK, jc)):
        out.append(("parse_as_with_inert_content", d, bd.replace(MARK, jq)))
    if any(0x10203E <= ord(ch) <= 0x10FFFD for ch in ex + d):
        out.append(("no_placeholder_character_in_result", ex, "none"))
    return text, out


def work(payload, skip, report):
    acc = Acc(PROP)
    kind = payload[0]
    ctx = make_ctx()
    i = 0
    if kind == "re":
        for c, (label, mode), hk, where in itertools.product(RE_CONTENTS, RE_MODES, ("nested_parse", "nested_expand"), ("before", "after")):
            report(i)
            i += 1
            text, out = check_reentrant(ctx, c, label, mode, hk, where)
            acc.case()
            for oracle, obs, exp in out:
                acc.violation(oracle, {"input": text, "content": c, "mode": label, "hook": hk, "reentrant": True}, obs, exp)
        acc.sample({"input": "{{a}}\n<nowiki>----</nowiki>\nz", "hook": "nested_parse"})
    elif kind == "nw":
        _, alpha, prefix, depth = payload
        alphabet = NW_TOKENS if alpha == "T" else NW_CORE
        for rest in itertools.product(alphabet, repeat=depth - len(prefix)):
            c = "".join(prefix + rest)
            if not c:
                continue
            for e in EMBED:
                if e == "link" and "\n" in c:
                    pass
                report(i)
                i += 1
                text, out = check_nowiki(ctx, c, e)
                acc.case()
                for oracle, obs, exp in out:
                    acc.violation(oracle, {"input": text, "c": c, "embedding": e}, obs, exp)
            acc.distinct("contents", c)
            if i % 40009 == 0:
                acc.sample({"c": c})
    elif kind == "nw2":
        _, alpha, depth = payload
        alphabet = NW_TOKENS if alpha == "T" else NW_CORE
        for toks in itertools.product(alphabet, repeat=depth):
            c = "".join(toks)
            if not c:
                continue
            for ti, tmpl in enumerate(EMBED2):
                report(i)
                i += 1
                text, out = check_nowiki2(ctx, c, tmpl)
                acc.case()
                for oracle, obs, exp in out:
                    acc.violation(oracle, {"input": text, "c2": c, "embedding2": ti}, obs, exp)
            acc.distinct("contents", c)
        acc.sample({"c2": c, "embedding2": 0})
    elif kind == "cm":
        _, x, pair_alpha = payload
        for y in [""] + CM_TOKENS:
            for n in (0, 1, 2):
                for cp in itertools.product(CM_INNER if n < 2 else pair_alpha, repeat=n):
                    cprime = "".join(cp)
                    if "-->" in cprime or "--" + ">" in (cprime + "-->")[:-3]:
                        continue
                    report(i)
                    i += 1
                    a, out = check_comment(ctx, x, cprime, y)
                    acc.case()
                    acc.distinct("contents", a)
                    for oracle, obs, exp in out:
                        acc.violation(oracle, {"input": a, "x": x, "comment": cprime, "y": y}, obs, exp)
        acc.sample({"x": x, "comment": "<!--...-->"})
    elif kind == "ph":
        _, text = payload
        case = {"input": text}
        if 0 in skip:
            acc.case()
            acc.violation("placeholder_input_terminates", case, "hang (killed by watchdog)", "returns")
        else:
            report(0)
            acc.case()
            try:
                ctx.start_page("Tt")
                ctx.expand(text)
                ctx.start_page("Tt")
                ctx.parse(text)
            except Exception as ex:
                acc.violation("placeholder_input_terminates", case, type(ex).__name__, "returns")
    close_ctx(ctx)
    return acc


def replay(case):
    ctx = make_ctx()
    try:
        if "c2" in case:
            _, out = check_nowiki2(ctx, case["c2"], EMBED2[case["embedding2"]])
        elif "c" in case:
            _, out = check_nowiki(ctx, case["c"], case["embedding"])
        elif "comment" in case:
            _, out = check_comment(ctx, case["x"], case["comment"], case["y"])
        elif case.get("reentrant"):
            out = []
            for (label, mode), where in itertools.product(RE_MODES, ("before", "after")):
                if label == case["mode"]:
                    out += check_reentrant(ctx, case["content"], label, mode, case["hook"], where)[1]
        else:
            return None  # placeholder inputs hang; not replayable in-process
    finally:
        close_ctx(ctx)
    return [{"oracle": o, "observed": ob, "expected": ex} for o, ob, ex in out]


def main(run):
    q = run.tier == "quick"
    chunks = [("nw", "T", (), 1), ("nw", "T", (), 2)]
    if q:
        for t in NW_CORE:
            chunks.append(("nw", "C", (t,), 3))
    else:
        for t in NW_TOKENS:
            chunks.append(("nw", "T", (t,), 3))
        for t1 in NW_CORE[:28]:
            for t2 in NW_CORE[:28]:
                chunks.append(("nw", "C", (t1, t2), 4))
    for x in [""] + CM_TOKENS:
        chunks.append(("cm", x, CM_PAIR_Q if q else CM_PAIR_T))
    for t in PLACEHOLDER_INPUTS:
        chunks.append(("ph", t))
    chunks.append(("re",))
    chunks += [("nw2", "C", 1), ("nw2", "C" if q else "T", 2)]
    done = 0
    for cid, acc, hung in run_chunks(work, chunks, nproc=run.nproc, case_timeout=6):
        run.acc.merge(acc)
        done += 1
        if done % 300 == 0:
            run.log("chunks", done, "/", len(chunks), "cases", run.acc.n)
    cov = {
        "distinct_nontrivial": len(run.acc.sets.get("contents", ())),
        "rule": "nowiki: every content c of 1..%s tokens over %d tokens (closing tag excluded; k=%s over a %d-token core) x 5 embeddings "
                "(top level, template argument with capturing template_fn, link text, list item, table cell) x {expand, parse}; "
                "comments: every x<!--c'-->y with x,y in {empty} + %d tokens, c' of <= 1 token over %d and 2 tokens over a %d-token core (a comment whose content opens a nowiki that swallows the comment end is outside the domain); 3 inputs containing "
                "placeholder code points under the watchdog. Distinct = distinct contents / comment inputs."
                % ("3 (core)" if q else "3", len(NW_TOKENS), "3" if q else "4", len(NW_CORE), len(CM_TOKENS), len(CM_INNER), len(CM_PAIR_Q if q else CM_PAIR_T)),
        "exhaustive": True,
    }
    assumptions = [
        "reference entity table is an independent copy of the documented one; c contains no '&' so decoding is unambiguous",
        "nowiki inside constructs written back as text: every content of <= 2 tokens x %d embeddings (a disabled call / a missing template / <pre> / an attribute value holding a link or parameter reference that holds the nowiki, with a second nowiki before or after) x {expand, parse}, against the same input with an inert word as content (substitution oracle)" % len(EMBED2),
        "comment oracle skips x that opens a nowiki or a comment (the comment must be outside nowiki and closed)",
    ]
    return run.finish(cov, assumptions, replay_fn=replay)
