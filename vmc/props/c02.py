"""C02  Section, list and rule structure follows the nesting model.

Bounded exhaustive exploration against a reference model written from the
statement: every document of <= N lines over {heading 1..6, list marker over
{*,#} of depth <= 4, ----, filler} x every filler of a balanced-markup
catalogue.  The skeleton (which heading/item/filler sits in which
section/item, marker of every item, list identity) extracted from the real
parse tree must equal the model's.
"""
from __future__ import annotations

import itertools
import os
import re

from ..fixtures import close_ctx, new_ctx
from ..pool import run_chunks
from ..leak import LEAK_ORACLE, Recent, replay_history, settle
from ..runner import Acc
from ..treeutil import LEVELK, K

PROP = "C02"
LEVEL = "exploration"

MARKS = [m for d in (1, 2, 3, 4) for m in map("".join, itertools.product("*#", repeat=d))]
LINES = [("h", l) for l in range(1, 7)] + [("l", m) for m in MARKS] + [("hr", None), ("t", None)]
FILLERS = [
    "{X}", "'''{X}'''", "''{X}''", "[[{X}]]", "{{{{{X}}}}}", "<b>{X}</b>", "<nowiki>{X}</nowiki>",
    "{X}\n{Y}", "[[a|{X}]]", '<span class="c">{X}</span>', "{{{{#if:1|{X}}}}}", "{X} <!-- c -->",
    # plain text with a '>' and a '<' followed by a word that merely begins like a tag name (u, b, i, s, p, a, q ...)
    "{X} -> a <under b",
    # one magic construct nested inside another (the line-start handling is switched off and on again around each)
    "{{{{t|see [[{X}]]}}}}", "{{{{t|k={{{{u|{X}}}}}}}}}", "[[a|{{{{u}}}} {X}]]",
    # a <pre> that opens on the line and continues on the next one (on an item line the item ends at the line break and
    # the end tag arrives with no <pre> open)
    "<pre>{X}\n{Y}</pre>",
]
TAG_RE = re.compile(r"[HITU]\d+")


def fill(f, x, y):
    return FILLERS[f].format(X=x, Y=y)


HEADING_TAILS = ["", " ", "\t", " <!-- c -->"]


def render(doc, f):
    out = []
    for i, (k, v) in enumerate(doc):
        if k == "h":
            # v = level + 10 * (index of what follows the closing "=" run on the line: nothing, a blank, a tab, a comment)
            out.append("=" * (v % 10) + "H%d" % i + "=" * (v % 10) + HEADING_TAILS[v // 10])
        elif k == "l":
            out.append(v + fill(f, "I%d" % i, "U%d" % i))
        elif k == "hr":
            out.append("----")
        elif k == "e":
            out.append("")          # an empty line: ends every open list
        else:
            out.append(fill(f, "T%d" % i, "U%d" % i))
    return "\n".join(out) + "\n"


def ref(doc, f):
    """tag -> descriptor, from the statement only."""
    two = "\n" in FILLERS[f]
    want = {}
    secs = [("R", 0)]
    lists = []  # open items: (marker, listid, itemtag)
    hrs = []
    for i, (k, v) in enumerate(doc):
        if k == "h":
            v = v % 10
            lists = []
            while secs[-1][1] >= v:
                secs.pop()
            want["H%d" % i] = ("LEVEL%d" % v, secs[-1][0])
            secs.append(("H%d" % i, v))
        elif k == "hr":
            lists = []
            while secs[-1][1] > 2:
                secs.pop()
            hrs.append(secs[-1][0])
        elif k == "e":
            lists = []
        elif k == "t":
            lists = []
            want["T%d" % i] = ("text", secs[-1][0])
            if two:
                want["U%d" % i] = ("text", secs[-1][0])
        else:
            while lists and not v.startswith(lists[-1][0]):
                lists.pop()
            tag = "I%d" % i
            if lists and lists[-1][0] == v:
                _, listid, _old = lists.pop()
                parent = lists[-1][2] if lists else secs[-1][0]
            else:
                listid = tag
                parent = lists[-1][2] if lists else secs[-1][0]
            want[tag] = ("item", parent, v, listid)
            lists.append((v, listid, tag))
            if two:
                # the second filler line is ordinary text: closes the lists
                lists = []
                want["U%d" % i] = ("text", secs[-1][0])
    return want, hrs


def strings_of(node, stop_lists):
    """All strings below node (children, largs), not descending into LIST nodes if stop_lists."""
    out = []
    stack = [node]
    while stack:
        n = stack.pop()
        if isinstance(n, str):
            out.append(n)
            continue
        if isinstance(n, (list, tuple)):
            stack.extend(reversed(n))
            continue
        if stop_lists and n.kind == K.LIST and n is not node:
            continue
        stack.append(n.children)
        for a in n.largs:
            stack.append(a)
    return out


def extract(root):
    got = {}
    hrs = []
    dup = []

    def put(tag, val):
        if tag in got:
            dup.append(tag)
        got[tag] = val

    def walk(n, cur, listid_ref):
        for c in n.children:
            if isinstance(c, str):
                for t in TAG_RE.findall(c):
                    if t[0] in "TU":
                        put(t, ("text", cur))
                continue
            if c.kind in LEVELK:
                title = " ".join(strings_of(c.largs, False))
                tags = TAG_RE.findall(title)
                t = tags[0] if tags else "?"
                put(t, (c.kind.name, cur))
                walk(c, t, None)
            elif c.kind == K.HLINE:
                hrs.append(cur)
            elif c.kind == K.LIST:
                first = [None]
                walk(c, cur, first)
            elif c.kind == K.LIST_ITEM:
                own = " ".join(strings_of(c, True))
                tags = [t for t in TAG_RE.findall(own) if t[0] == "I"]
                t = tags[0] if tags else "?"
                if listid_ref is not None and listid_ref[0] is None:
                    listid_ref[0] = t
                put(t, ("item", cur, c.sarg, listid_ref[0] if listid_ref else "?"))
                # U tags inside the item's own content
                for u in TAG_RE.findall(own):
                    if u[0] in "TU":
                        put(u, ("text", t))
                walk_item(c, t)
            else:
                # inline / other nodes: text inside belongs to the current container
                for s in strings_of(c, False):
                    for t in TAG_RE.findall(s):
                        if t[0] in "TU":
                            put(t, ("text", cur))
                        elif t[0] == "H":
                            put(t, ("stray-heading-text", cur))

    def walk_item(item, tag):
        # only nested lists matter below an item (its own text was handled)
        for c in item.children:
            if not isinstance(c, str) and c.kind == K.LIST:
                first = [None]
                walk(c, tag, first)
            elif not isinstance(c, str) and c.kind in LEVELK:
                walk(type("X", (), {"children": [c]})(), tag, None)
        if item.definition:
            pass

    walk(root, "R", None)
    return got, hrs, dup


def check_doc(ctx, doc, f):
    text = render(doc, f)
    ctx.start_page("Tt")
    root = ctx.parse(text)
    got, ghrs, dup = extract(root)
    want, whrs = ref(doc, f)
    out = []
    if dup:
        out.append(("one_node_per_line", {"duplicated": sorted(set(dup))}, "each tag exactly once"))
    if got != want:
        diff = sorted((k, got.get(k), want.get(k)) for k in set(got) | set(want) if got.get(k) != want.get(k))
        kinds = set()
        for k, g, w in diff:
            kinds.add("heading_nesting" if k[0] == "H" else "list_nesting" if k[0] == "I" else "content_in_section")
        for kd in sorted(kinds):
            out.append((kd, [d for d in diff][:6], "reference skeleton"))
    if ghrs != whrs:
        out.append(("hline_section", ghrs, whrs))
    return text, out, got


def work(payload, skip, report):
    acc = Acc(PROP)
    prefixes, depth, fillers = payload
    ctx = new_ctx()
    recent = Recent()
    i = 0
    for pre in prefixes:
        for rest in itertools.product(LINES, repeat=depth - len(pre)):
            doc = list(pre) + list(rest)
            for f in fillers:
                if not any(k in ("l", "t") for k, _ in doc) and f != 0:
                    continue  # filler does not occur in this document
                report(i)
                i += 1
                text, out, got = check_doc(ctx, doc, f)
                acc.case()
                if len(got) >= 2:
                    acc.distinct("skeletons", sorted(got.items()))
                cur = {"input": text, "doc": [list(x) for x in doc], "filler": FILLERS[f]}
                if out and not os.environ.get("VMC_NO_SETTLE"):   # (the switch exists to exercise the runner's chunk-level replay)
                    # state left behind by an earlier document of this worker?  (see vmc/leak.py)
                    out, leaked = settle(_run_case, cur, recent, out, new_ctx, close_ctx)
                    if leaked is not None:
                        hist, rest = leaked
                        acc.violation(LEAK_ORACLE, {"history": hist} if hist else dict(cur, history=None),
                                      [(o, ob) for o, ob, _ in rest][:3], "what a fresh context gives for the last document")
                        close_ctx(ctx)
                        ctx = new_ctx()
                        recent.leaked()
                recent.push(cur)
                for oracle, obs, exp in out:
                    acc.violation(oracle, cur, obs, exp)
                if i == 5 or i % 1009 == 0:
                    acc.sample({"input": text})
    close_ctx(ctx)
    return acc


def _run_case(ctx, case):
    return check_doc(ctx, [tuple(x) for x in case["doc"]], FILLERS.index(case["filler"]))[1]


def replay(case):
    if case.get("history"):
        return replay_history(_run_case, case["history"], new_ctx, close_ctx)
    ctx = new_ctx()
    try:
        doc = [tuple(x) for x in case["doc"]]
        f = FILLERS.index(case["filler"])
        _, out, _ = check_doc(ctx, doc, f)
    finally:
        close_ctx(ctx)
    return [{"oracle": o, "observed": ob, "expected": ex} for o, ob, ex in out]


def main(run):
    q = run.tier == "quick"
    maxlen = 3 if q else 4
    fl = list(range(len(FILLERS)))
    chunks = [([()], 1, fl), ([()], 2, fl)]
    for a in LINES:
        chunks.append(([(a,)], 3, fl))
    if not q:
        for a in LINES:
            for b in LINES:
                chunks.append(([(a, b)], 4, fl))
        # longer heading-only and marker-only sequences (statement: headings to length 4 exhaustively; here 6)
    done = 0
    for cid, acc, hung in run_chunks(work, chunks, nproc=run.nproc, case_timeout=30):
        run.acc.merge(acc)
        done += 1
        if done % 300 == 0:
            run.log("chunks", done, "/", len(chunks), "docs", run.acc.n)
    # extra: heading-only sequences to length 6 and marker-only (depth<=2 markers) to length 6
    extra = []
    H = [l for l in LINES if l[0] == "h"]
    M = [l for l in LINES if l[0] == "l" and len(l[1]) <= 2] + [("t", None)]
    for alpha, L in ((H, 5 if q else 6), (M, 4 if q else 6)):
        for a in alpha:
            extra.append((alpha, a, L))
    # heading lines with something after the closing "=" run (a blank, a tab, a comment), mixed with plain headings, items, text
    HT = [("h", lvl + 10 * t) for lvl in (1, 2, 3) for t in (1, 2, 3)] + [("h", 2), ("h", 3), ("l", "*"), ("l", "**"), ("t", None)]
    for a in HT:
        extra.append((HT, a, 3 if q else 4, 1))
    # empty lines between list lines of different depths (an empty line ends all levels of the list before it)
    ME = [("l", "*"), ("l", "**"), ("l", "#"), ("l", "*#"), ("l", "***"), ("e", None), ("t", None)]
    for a in ME:
        extra.append((ME, a, 4 if q else 5, 2))
    for cid, acc, hung in run_chunks(work_extra, extra, nproc=run.nproc, case_timeout=30):
        run.acc.merge(acc)
    cov = {
        "distinct_nontrivial": len(run.acc.sets.get("skeletons", ())),
        "rule": "every document of <= %d lines, each line one of %d kinds (6 heading levels, %d list markers over {*,#} of depth <= 4, "
                "----, filler line) x every one of %d balanced fillers (used for filler lines and item texts); plus heading-only "
                "sequences to length %d and marker-only sequences (depth <= 2) to length %d; documents of <= 3 (thorough 4) lines over headings followed on their line by a blank / tab / comment, plain headings, items and text; documents of <= 4 (thorough 5) lines over five list markers, the empty line and a text line. Non-trivial/distinct = distinct "
                "extracted skeletons with >= 2 tagged nodes." % (maxlen, len(LINES), len(MARKS), len(FILLERS), 5 if q else 6, 4 if q else 6),
        "exhaustive": True,
    }
    assumptions = [
        "heading titles are plain tags; item texts and filler lines carry the filler markup",
        "reference model: ~50 lines written from the statement (section stack, marker-prefix list stack)",
    ]
    return run.finish(cov, assumptions, replay_fn=replay)


def work_extra(payload, skip, report):
    alpha, first, L = payload[:3]
    nmin = payload[3] if len(payload) > 3 else 4
    acc = Acc(PROP)
    ctx = new_ctx()
    i = 0
    for n in range(nmin, L + 1):
        for rest in itertools.product(alpha, repeat=n - 1):
            doc = [first] + list(rest)
            report(i)
            i += 1
            text, out, got = check_doc(ctx, doc, 0)
            acc.case()
            acc.distinct("skeletons", sorted(got.items()))
            for oracle, obs, exp in out:
                acc.violation(oracle, {"input": text, "doc": [list(x) for x in doc], "filler": FILLERS[0]}, obs, exp)
    close_ctx(ctx)
    return acc
