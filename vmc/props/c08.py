"""C08  The Lua frame API is equivalent to the corresponding wikitext.

Bounded exhaustive exploration: (1) every argument list up to a length bound
over an alphabet with blanks, newlines, named/numeric names and nested calls, at
wrapper depths 0..2, comparing frame args / parent title / parent args seen by
an echo module with the reference evaluation of the written arguments;
(2) every fragment of the expansion grammar up to a size bound passed to
frame:preprocess, and grids of frame:expandTemplate / frame:callParserFunction
calls, compared with expand() of the equivalent wikitext.
"""
from __future__ import annotations

import itertools

from ..fixtures import close_ctx, new_ctx
from ..pool import run_chunks
from ..ref_expand import Grammar, render
from ..runner import Acc

PROP = "C08"
LEVEL = "exploration"

# atom -> (written text, expanded value)    Template:a = "A[{{{1}}}]"
ATOMS = [("1=p", None), ("a", "a"), (" a", " a"), ("a ", "a "), ("\na", "\na"), ("k=v", None), (" k = v ", None), ("k=\nv", None),
         ("2=v", None), ("j= {{a|z}} ", None), ("{{a|x}}", "A[x]"), (" {{a| y }} ", " A[ y ] "), ("x y", "x y"), ("m=", None), ("n={{pad}}", None), ("{{pad}}", " x "),
         ("t=one\ntwo", None), (" u = * a\n* b\n", None),
         ("{{kn}}=cv", None), ("{{one}}=nv", None), ("{{kv}}", "q=v"),
         # blanks protected by nowiki survive the trimming of a named value (the idiom for passing a separator)
         ("s=<nowiki> , </nowiki>", None), ("r= <nowiki> </nowiki>x ", None),
         # a value that expands to literal braces ({{lb}} = "{{", {{rb}} = "}}"): expanded once, never again
         ("{{lb}}a{{!}}y{{rb}}", "{{a|y}}")]
EXPAND = {"{{a|z}}": "A[z]", "{{pad}}": " x ", "{{kn}}": "cn", "{{one}}": "1", "{{kv}}": "q=v", "{{lb}}a{{!}}y{{rb}}": "{{a|y}}"}

ECHO = r"""
local e = {}
local frags = require("Module:frags")
local function dumpargs(args)
  local keys = {}
  for k, v in pairs(args) do keys[#keys+1] = k end
  table.sort(keys, function(a,b) return tostring(a) < tostring(b) end)
  local out = {}
  for _, k in ipairs(keys) do out[#out+1] = type(k) .. ":" .. tostring(k) .. "=<" .. tostring(args[k]) .. ">" end
  return table.concat(out, ";;")
end
function e.dump(frame) return dumpargs(frame.args) end
function e.both(frame)
  local p = frame:getParent()
  local s = "F{" .. dumpargs(frame.args) .. "}"
  if p then s = s .. "P{" .. p:getTitle() .. "##" .. dumpargs(p.args) .. "}" else s = s .. "P{nil}" end
  return s
end
function e.title(frame) return frame:getTitle() end
function e.pp(frame) return frame:preprocess(frags[tonumber(frame.args[1])]) end
function e.ppv(frame) return frame:newParserValue{text = frags[tonumber(frame.args[1])]}:expand() end
function e.etv(frame)
  local spec = frags[tonumber(frame.args[1])]
  return frame:newTemplateParserValue{title = spec.title, args = spec.args}:expand()
end
function e.et(frame)
  local spec = frags[tonumber(frame.args[1])]
  return frame:expandTemplate{title = spec.title, args = spec.args}
end
function e.cpf(frame)
  local spec = frags[tonumber(frame.args[1])]
  return frame:callParserFunction(spec.name, unpack(spec.args))
end
function e.cpfv(frame)
  local spec = frags[tonumber(frame.args[1])]
  return frame:callParserFunction(spec.name, spec.args)
end
function e.cpft(frame)
  local spec = frags[tonumber(frame.args[1])]
  return frame:callParserFunction{name = spec.name, args = spec.args}
end
return e
"""

LIB = {
    "Template:a": "A[{{{1}}}]",
    "Template:n": "N[{{{k|d}}}|{{{1|e}}}]",
    "Template:b": "{{{1}}}",
    "Template:pad": " x ",
    "Template:kn": "cn",
    "Template:one": "1",
    "Template:kv": "q=v",
    "Template:lb": "{{",
    "Template:rb": "}}",
    "Template:!": "|",
    "Template:w1": "{{#invoke:echo|both|{{{1}}}|k={{{k|}}}}}",
    "Template:w2": "{{w1|{{{1}}}|k={{{k|}}}}}",
    # the same invocation twice in one body: both see the same parent frame
    "Template:w1x2": "{{#invoke:echo|both|{{{1}}}|k={{{k|}}}}}%%{{#invoke:echo|both|{{{1}}}|k={{{k|}}}}}",
    "Template:pw": "{{#invoke:echo|pp|{{{1}}}}}",
    "Template:pw2": "{{#invoke:echo|pp|{{{1}}}}}",
    "Template:wa": "{{#invoke:echo|dump|{{#invoke:echo|both}}}}",
    "Template:ew": "{{#invoke:echo|et|{{{1}}}}}",
}

# histories on ONE page: the same frame API call issued from different calling contexts must give what it gives on a fresh page
H_FRAGS = ["{{#invoke:echo|both}}", "{{{2}}}", "{{a|x}}", "{{#invoke:echo|both|{{{2|}}}}}", "x"]
H_CALLS = ["{{#invoke:echo|pp|%d}}", "{{pw|%d|q}}", "{{pw|%d|r}}", "{{pw2|%d|s}}"]
H_FIXED = ["{{wa|q}}", "{{wa|r}}"]


def history_alphabet():
    return [c % (i + 1) for c in H_CALLS for i in range(len(H_FRAGS))] + H_FIXED


def lua_str(s):
    return '"' + s.replace("\\", "\\\\").replace('"', '\\"').replace("\n", "\\n") + '"'


def lua_val(v):
    if isinstance(v, str):
        return lua_str(v)
    if isinstance(v, (int, float)):
        return str(v)
    if isinstance(v, list):
        return "{" + ", ".join(lua_val(x) for x in v) + "}"
    if isinstance(v, dict):
        return "{" + ", ".join(("[%s]=%s" % (k if isinstance(k, int) else lua_str(k), lua_val(x))) for k, x in v.items()) + "}"
    raise TypeError(v)


def key_of(k):
    k = k.strip()
    return int(k) if k.isascii() and k.isdigit() and int(k) > 0 else k


def expand_ref(s):
    for k, v in EXPAND.items():
        s = s.replace(k, v)
    return s


def ref_args(lst):
    """Reference frame arguments for a written argument list (values after expansion)."""
    d, num = {}, 1
    table = dict(ATOMS)
    for a in lst:
        if table.get(a) is None:
            k, v = a.split("=", 1)
            if "<nowiki>" in v:
                # trimmed as written, then the nowiki content is put in as it is
                d[key_of(expand_ref(k))] = v.strip().replace("<nowiki>", "").replace("</nowiki>", "")
            else:
                d[key_of(expand_ref(k))] = expand_ref(v).strip()
        else:
            v = table[a]
            d[num] = v[:-1] if v.endswith("\n") else v
            num += 1
    return d


def in_domain(lst):
    keys, num = [], 1
    table = dict(ATOMS)
    for a in lst:
        if table.get(a) is None:
            keys.append(key_of(expand_ref(a.split("=", 1)[0])))
        else:
            keys.append(num)
            num += 1
    return len(set(keys)) == len(keys)


def parse_dump(s):
    d = {}
    for part in s.split(";;"):
        if not part:
            continue
        try:
            typ, rest = part.split(":", 1)
            k, v = rest.split("=<", 1)
            d[int(k) if typ == "number" else k] = v[:-1]
        except ValueError:
            d["?"] = s[:120]
    return d


def js(d):
    return sorted(((type(k).__name__, str(k)), v) for k, v in d.items())


def make_ctx(frags):
    ctx = new_ctx(lua=True, parser_function_aliases={"#si": "#if"})
    for t, b in LIB.items():
        ctx.add_page(t, 10, b)
    ctx.add_page("Module:echo", 828, ECHO, model="Scribunto")
    ctx.add_page("Module:frags", 828, "return " + lua_val(frags), model="Scribunto")
    ctx.db_conn.commit()
    return ctx


def check_args(ctx, lst):
    out = []
    txt = "|".join(lst)
    want = ref_args(lst)
    # depth 0
    ctx.start_page("Tt")
    got = ctx.expand("x{{#invoke:echo|both|%s}}y" % txt)
    if not (got.startswith("xF{") and got.endswith("}y")):
        out.append(("returned_string_replaces_call", got[:200], "xF{...}P{nil}y"))
    else:
        body = got[1:-1]
        f, p = body[2:].split("}P{", 1)
        if parse_dump(f) != want:
            out.append(("frame_args_depth0", js(parse_dump(f)), js(want)))
        if p != "nil}":
            out.append(("no_parent_on_page", p[:100], "nil"))
    # depth 1 and 2: template forwards {{{1}}} and {{{k|}}}
    fwd = {1: want[1] if 1 in want else "{{{1}}}", "k": want.get("k", "")}
    for depth, call, ptitle in ((1, "{{w1|%s}}", "Template:w1"), (2, "{{w2|%s}}", "Template:w1")):
        ctx.start_page("Tt")
        got = ctx.expand(call % txt)
        if not got.startswith("F{") or "}P{" not in got:
            out.append(("returned_string_replaces_call", got[:200], "F{...}P{...}"))
            continue
        f, p = got[2:].split("}P{", 1)
        p = p[:-1]
        wantf = {1: fwd[1][:-1] if fwd[1].endswith("\n") else fwd[1], "k": fwd["k"].strip()}
        if depth == 2:
            # second hop: w2 forwards again; named k is trimmed on the way
            wantf = {1: wantf[1], "k": wantf["k"]}
        # a forwarded value that contains '=' is split again when it is substituted for {{{1}}} (known finding, as C04 K11)
        eq = "_equals_sign_through_parameter" if "=" in fwd[1] and "{{{" not in fwd[1] else ""
        if fwd[1].startswith("{{a|"):
            eq = "_literal_braces_through_parameter"    # same root cause: the substituted text is parsed again
        if parse_dump(f) != wantf:
            out.append(("frame_args_depth%d%s" % (depth, eq), js(parse_dump(f)), js(wantf)))
        title, pargs = p.split("##", 1)
        if title != ptitle:
            out.append(("parent_title", title, ptitle))
        wantp = want if depth == 1 else {1: fwd[1], "k": fwd["k"].strip()}
        if depth == 2:
            wantp = {1: (fwd[1][:-1] if fwd[1].endswith("\n") else fwd[1]), "k": fwd["k"].strip()}
        if parse_dump(pargs) != wantp:
            out.append(("parent_args_depth%d%s" % (depth, eq if depth == 2 else ""), js(parse_dump(pargs)), js(wantp)))
    # two invocations under one template call: each gives what the single one gives (differential against w1)
    ctx.start_page("Tt")
    one = ctx.expand("{{w1|%s}}" % txt).replace("P{Template:w1##", "P{Template:w1x2##")
    ctx.start_page("Tt")
    two = ctx.expand("{{w1x2|%s}}" % txt)
    if two != one + "%%" + one:
        out.append(("second_invocation_under_the_same_parent", two[:300], (one + "%%" + one)[:300]))
    return out


def et_text(spec):
    return "{{" + spec["title"] + "".join("|%s=%s" % (k, v) for k, v in sorted(spec["args"].items(), key=lambda x: str(x[0]))) + "}}"


def cpf_text(spec):
    args = spec["args"]
    if isinstance(args, dict):
        pos = [args[i] for i in sorted(k for k in args if isinstance(k, int))]
        args = pos + ["%s=%s" % (k, v) for k, v in args.items() if not isinstance(k, int)]
    if ":" in spec["name"]:
        return "{{" + spec["name"] + "".join("|" + a for a in args) + "}}"
    return "{{" + spec["name"] + ":" + "|".join(args) + "}}"


def fragments(tier):
    g = Grammar(["x", " x ", "*x"], ["1"], [None, "k"], control=True)
    frs = []
    for size in (1, 2, 3) if tier == "quick" else (1, 2, 3, 4):
        for e in g.exprs(size, False, ["a", "n"]):
            frs.append(render(e))
    # strings that only exist inside Lua: nowiki / comments are handled there exactly as in page text
    frs += ["<nowiki>{{a|x}}</nowiki>", "a<nowiki>[[b]]</nowiki>{{a|c}}", "x<!-- c -->y", "<nowiki/>{{a|x}}", "{{a|<nowiki>|</nowiki>}}"]
    frs = [f for f in dict.fromkeys(frs) if f]
    ets = []
    vals = ["x", " x ", "x y", ""]
    for title in ("a", "n", "missing", "b"):
        ets.append({"title": title, "args": {}})
        for v in vals:
            ets.append({"title": title, "args": {1: v}})
            ets.append({"title": title, "args": {"k": v}})
            for v2 in vals[:3]:
                ets.append({"title": title, "args": {1: v, 2: v2}})
                ets.append({"title": title, "args": {1: v, "k": v2}})
    cpfs = []
    pv = ["AbC", "x", "3", "1+1", "", "a b"]  # no surrounding blanks: wikitext trims the name segment, Lua passes values as is
    for name in ("lc", "uc", "ucfirst", "lcfirst", "#len", "urlencode", "#expr", "padleft", "#titleparts", "#pos"):
        for a in pv:
            cpfs.append({"name": name, "args": [a]})
            for b in pv[:4]:
                cpfs.append({"name": name, "args": [a, b]})
    # long argument lists (order of more than nine arguments)
    many = ["zz"] + ["c%d=%d" % (i, i) for i in range(1, 11)] + ["dflt"]
    cpfs.append({"name": "#switch", "args": many})
    cpfs.append({"name": "#switch", "args": ["c10"] + many[1:]})
    cpfs.append({"name": "#if", "args": ["", "y", "n"] + ["x"] * 9})
    # a function name that carries its first argument ("#if:x"), and a name reached through parser_function_aliases
    cpfs.append({"name": "#if:x", "args": ["yes", "no"]})
    cpfs.append({"name": "#tag:span", "args": ["content"]})
    # ... where the first argument that rides on the name is case-, underscore- or blank-sensitive
    for nm, rest in (("#ifeq:A", ["a", "same", "differ"]), ("ucfirst:aBC", []), ("uc:a_b", []), ("padleft:Ab", ["4", "X"]), ("lc:A  B_c", []),
                     ("#switch:Ab", ["ab=lower", "Ab=exact"]), ("UC:mixed_Case x", []), ("#IFEQ:x_y", ["x y", "same", "differ"])):
        cpfs.append({"name": nm, "args": rest})
    cpfs.append({"name": "#si", "args": ["x", "yes", "no"]})
    return frs, ets, cpfs


def cpf_named_specs():
    # argument tables with named entries (passed on as k=v)
    return [{"name": "#tag", "args": {1: "span", 2: "content", "class": "foo"}},
            {"name": "#tag", "args": {1: "ref", 2: "content", "name": "n1"}},
            {"name": "#switch", "args": {1: "b", "a": "1", "b": "2"}}]


def work(payload, skip, report):
    acc = Acc(PROP)
    kind = payload[0]
    if kind == "args":
        _, prefix, length = payload
        ctx = make_ctx(["-"])
        names = [a for a, _ in ATOMS]
        i = 0
        for rest in itertools.product(names, repeat=length - len(prefix)):
            lst = list(prefix) + list(rest)
            report(i)
            i += 1
            out = check_args(ctx, lst)
            acc.case()
            acc.distinct("cases", lst)
            for oracle, obs, exp in out:
                acc.violation(oracle, {"args": lst, "call": "{{#invoke:echo|both|" + "|".join(lst) + "}}"}, obs, exp)
            if i % 401 == 0:
                acc.sample({"args": lst})
        close_ctx(ctx)
    elif kind == "hist":
        _, prefix, length = payload
        ctx = make_ctx(H_FRAGS)
        alpha = history_alphabet()
        single = {}
        for c in alpha:
            ctx.start_page("Tt")
            single[c] = ctx.expand(c)
        i = 0
        for rest in itertools.product(alpha, repeat=length - len(prefix)):
            hist = list(prefix) + list(rest)
            report(i)
            i += 1
            ctx.start_page("Tt")
            got = [ctx.expand(c) for c in hist]
            acc.case()
            acc.distinct("cases", hist)
            acc.distinct("history_outcomes", got)
            if got != [single[c] for c in hist]:
                acc.violation("same_call_same_result_within_page", {"history_on_one_page": hist, "fragments": H_FRAGS}, got, [single[c] for c in hist])
            # the whole history written as one text
            ctx.start_page("Tt")
            got1 = ctx.expand("|".join(hist))
            if got1 != "|".join(single[c] for c in hist):
                acc.violation("same_call_same_result_within_text", {"text": "|".join(hist), "fragments": H_FRAGS}, got1, "|".join(single[c] for c in hist))
            if i % 101 == 0:
                acc.sample({"history_on_one_page": hist, "results": got})
        close_ctx(ctx)
    else:
        _, which, items, lo = payload
        ctx = make_ctx(items)
        for i, it in enumerate(items):
            report(i)
            ctx.start_page("Tt")
            if which == "pp":
                got = ctx.expand("{{#invoke:echo|pp|%d}}" % (i + 1))
                ctx.start_page("Tt")
                want = ctx.expand(it)
                case = {"api": "preprocess", "text": it}
            elif which == "et":
                got = ctx.expand("{{#invoke:echo|et|%d}}" % (i + 1))
                ctx.start_page("Tt")
                want = ctx.expand(et_text(it))
                case = {"api": "expandTemplate", "spec": it, "equivalent": et_text(it)}
            else:
                got = ctx.expand("{{#invoke:echo|%s|%d}}" % (which, i + 1))
                ctx.start_page("Tt")
                want = ctx.expand(cpf_text(it))
                case = {"api": "callParserFunction(%s)" % which, "spec": it, "equivalent": cpf_text(it)}
            acc.case()
            acc.distinct("cases", case)
            if got != want:
                acc.violation(which + "_equals_wikitext", case, got, want)
            if which in ("pp", "et"):
                # the deferred forms of the same two calls (frame:newParserValue / frame:newTemplateParserValue, expanded at once)
                ctx.start_page("Tt")
                gotv = ctx.expand("{{#invoke:echo|%sv|%d}}" % (which, i + 1))
                if gotv != want:
                    acc.violation(which + "_parser_value_equals_wikitext", dict(case, api=case["api"] + " (parser value)"), gotv, want)
            if i % 301 == 0:
                acc.sample(case)
        close_ctx(ctx)
    return acc


def replay(case):
    if "args" not in case:
        return None
    ctx = make_ctx(["-"])
    try:
        out = check_args(ctx, case["args"])
    finally:
        close_ctx(ctx)
    return [{"oracle": o, "observed": ob, "expected": ex} for o, ob, ex in out]


def main(run):
    q = run.tier == "quick"
    chunks = [("args", (), 1)]
    names = [a for a, _ in ATOMS]
    for a in names:
        chunks.append(("args", (a,), 2))
    for a in names:
        for b in names:
            chunks.append(("args", (a, b), 3))
    if not q:
        for a in names[:6]:
            for b in names:
                for c in names:
                    chunks.append(("args", (a, b, c), 4))
    alpha = history_alphabet()
    chunks.append(("hist", (), 1))
    for a in alpha:
        chunks.append(("hist", (a,), 2))
        if not q:
            chunks.append(("hist", (a,), 3))
    frs, ets, cpfs = fragments(run.tier)
    step = 400
    for which, items in (("pp", frs), ("et", ets), ("cpf", cpfs), ("cpft", cpfs), ("cpfv", cpfs), ("cpft", cpf_named_specs()),
                         ("cpfv", cpf_named_specs())):
        for lo in range(0, len(items), step):
            chunks.append(("api", which, items[lo:lo + step], lo))
    for cid, acc, hung in run_chunks(work, chunks, nproc=run.nproc, case_timeout=30):
        run.acc.merge(acc)
    cov = {
        "distinct_nontrivial": len(run.acc.sets.get("cases", ())),
        "rule": "frame arguments: every argument list of length <= %d over %d atoms (blanks, newlines, named, numeric-named, nested "
                "calls as values) x wrapper depth 0,1,2 (invoke on the page; inside a template; inside a template inside a "
                "template, forwarding {{{1}}} and {{{k|}}}); frame:preprocess: %d grammar fragments of size <= %d; "
                "frame:expandTemplate: %d (title, args) specs; frame:callParserFunction: %d (name, args) specs in the three calling "
                "conventions (varargs, one argument table, named table); histories on one page: every sequence of <= %d calls over %d (calling context x fragment) calls - "
                "frame:preprocess of %d fragments (two of which read the parent frame) from the page, from Template:pw with two "
                "different argument lists, from Template:pw2, and a nested #invoke as an argument value - each compared with the same "
                "call on a fresh page, both as separate expand() calls and as one text. distinct = distinct cases." % (
                    3 if q else 4, len(ATOMS), len(frs), 3 if q else 4, len(ets), len(cpfs), 2 if q else 3, len(alpha), len(H_FRAGS)),
        "exhaustive": True,
    }
    assumptions = [
        "equivalent call of expandTemplate{title,args} is the numbered-named form {{title|k=v...}} (keys sorted as strings); of callParserFunction(name, a1, a2) it is {{name:a1|a2}}",
        "a trailing newline of a positional value is removed for Lua (documented in make_frame); preprocess is compared at page level",
    ]
    return run.finish(cov, assumptions, replay_fn=replay)
