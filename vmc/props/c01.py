"""C01  parse() is total and always returns a well-formed tree.

Bounded exhaustive exploration: every token string up to length k over the
wikitext token alphabet, the same with a template library under the three
expansion modes, nesting towers to depth 100 for every nestable construct, and
(thorough) every one-token deletion/insertion mutant of the real test pages.
"""
from __future__ import annotations

import itertools
import os
import re

from ..fixtures import close_ctx, new_ctx
from ..pool import run_chunks
from ..runner import Acc
from ..treeutil import CORE, TOKENS, K, kinds, shape, wellformed

PROP = "C01"
LEVEL = "exploration"

LIB = {
    "Template:ts": "{|",
    "Template:te": "|}",
    "Template:li": "* x",
    "Template:hd": "==h==",
    "Template:ar": "{{{1}}}",
    "Template:dv": "<div>",
    "Template:row": "|-\n| c",
    "Template:nw": "p <nowiki>''q'' [[r]]</nowiki> s",     # nowiki text that comes from a template body
}
LIBTOKENS = ["{{ts}}", "{{te}}", "{{li}}", "{{hd}}", "{{ar|", "{{dv}}", "{{row}}", "{{nw}}", "}}", "\n", "a", "|", "==", "*",
             "</div>", "'''", "[[", "]]", "{{{1|", "}}}", "<pre>", "|-"]
MODES = [{}, {"pre_expand": True}, {"expand_all": True}, {"additional_expand": ["ts", "li"]}]

# focused alphabets explored to a greater length (k <= 5): one per syntax family
FOCUS = {
    "links": ["[http://x.y", "[", "]", " ", ":", "a", "http://x.y", "<nowiki/>", "|", "[[", "]]"],
    "tables": ["{|", "|}", "|-", "|", "||", "!", "!!", "\n", "a", "|+", " ", "x=1"],
    "lists": ["*", "#", ":", ";", "\n", "a", " ", "''", "<b>", "</b>", "{{", "}}"],
    "html": ["<b>", "</b>", "<div>", "</div>", "<li>", "<br>", "<ref>", "</ref>", "\n", "a", "<pre>", "</pre>"],
    "calls": ["{{", "}}", "{{{", "}}}", "|", "=", "a", ":", "#if:", "\n", "[[", "]]"],
    "headings": ["==", "=", "===", "\n", "a", " ", "<pre>", "</pre>", "''", "{{", "}}", "----"],
    # character-level pieces around the tag regexes (token regex and tag_fn's regexes must agree)
    "tagchars": ["<b", "<br", "</b", " a", "=", '"x"', "'y'", "_", ":", "-", "/", ">", "<", "1"],
    # single braces / brackets around the inside-out encoder's regexes (-{}-, }{, {|..|} inside arguments)
    "braces": ["{", "}", "{{", "}}", "|", "-{", "}-", "a", "\n", "[", "]", "<nowiki/>", "{|", "|}"],
    # markup nested two levels inside <pre> / <nowiki/>-disabled calls: cookies whose arguments hold further cookies
    # reach the tree as text and must be expanded back completely
    "pre": ["<pre>", "</pre>", "{{a|", "{{b}}", "}}", "[[a|", "]]", "{{{b}}}", "<nowiki/>", "\n", "a", "{{{c|"],
    # markup inside HTML attribute values / names (the tag token is raw text: placeholders must not survive into node.attrs)
    "attrs": ["<span", " title=", '"', "{{a}}", "<nowiki>q</nowiki>", "[x]", ">", "</span>", "x", "[[a|", "]]", " ", "<pre", "</pre>",
              '[[a|<span title="', "[http://x.y <b id="],
    # inline HTML elements crossing link / call boundaries (an end tag force-closes what was opened inside the element)
    "inline": ["<b>", "</b>", "[[", "]]", "{{", "}}", "|", "a", "''", "<span>", "</span>", "\n"],
    "urlchars": ["http://x.y", "https://", "//", "[", "]", " ", "a", ".", ",", "?", "=", "|", "<", "\n"],
}

TOWERS = [
    ("''", "''"), ("'''", "'''"), ("[[a|", "]]"), ("{{a|", "}}"), ("{{{a|", "}}}"), ("<b>", "</b>"),
    ("<div>", "</div>"), ("<span>", "</span>"), ("{|\n|", "\n|}"), ("*", ""), ("<ref>", "</ref>"),
    ("[http://x.y ", "]"), ("{{#if:1|", "}}"), ("<li>", "</li>"), (":", ""), ("<table><tr><td>", "</td></tr></table>"),
    ("==", "=="), ("<pre>", "</pre>"),
]

PAGES = ["animal.txt", "Babel.txt", "fi-gradation.txt"]
# "[[" is not inserted: an unclosed "[[x|" followed by a long bracket-free run makes LINKS_RE cubic
# (bounded-time is C05's clause; see known finding K06 there)
INS_FULL = ["{{", "}}", "]]", "{|", "|}", "<pre>", "</div>", "==", "'''"]
INS_FEW = ["{{", "<pre>", "|}"]


def placeholder_texts():
    from wikitextprocessor.common import MAGIC_FIRST
    forms = ["[[a|%s]]", "{{{a|%s}}}", "{{ar|%s}}", "{{#if:1|%s}}", "[http://x.y %s]", "<nowiki>%s</nowiki>", "{{ar|k=%s}}",
             "{|\n|[[a|%s]]\n|}", "<b>{{ar|%s}}</b>"]
    out = []
    for f in forms:
        for k in (0, 1, 2):
            out.append(f % chr(MAGIC_FIRST + k))
    for f, g in itertools.product(forms[:4], repeat=2):
        out.append(f % chr(MAGIC_FIRST + 1) + " " + g % "b")
    return out


def unclosed_tag_texts():
    out = []
    for sep in ".-:_":
        out.append("x <b " + sep.join("a" for _ in range(40)) + ", y")
    out.append("x <b q=" + "-".join("a" for _ in range(40)) + ", y")
    out.append("x <b " + " ".join("a-b.c=d-e" for _ in range(40)) + ", y")
    out.append('see <ref name="n" www.example.org.uk.a.b.c.d.e.f.g.h.i.j.k.l.m.n.o.p.q.r.s.t.u.v.w.x.y.z, 1.2.3.4.5.6.7.8.9.10 and more')
    return out


def check_parse(ctx, text, mode):
    """Returns (complaints, root or None)."""
    ctx.start_page("Tt")
    kw = dict(mode)
    if "additional_expand" in kw:
        kw["additional_expand"] = set(kw["additional_expand"])
    try:
        root = ctx.parse(text, **kw)
    except RecursionError:
        return ["exception:RecursionError"], None
    except Exception as e:
        return ["exception:%s:%s" % (type(e).__name__, str(e)[:80])], None
    out = []
    if not hasattr(root, "kind") or root.kind != K.ROOT:
        out.append("result is not ROOT")
        return out, None
    if ctx.parser_stack:
        out.append("parser_stack left")
    if ctx.begline_disable_counter:
        out.append("begline_disable_counter left")
    if not ctx.begline_enabled:
        out.append("begline_enabled left False")
    for c in set(wellformed(root)):
        out.append("wf:" + c)
    return out, root


def make_ctx(lib):
    ctx = new_ctx()
    if lib:
        for t, b in LIB.items():
            ctx.add_page(t, 10, b, need_pre_expand=t in ("Template:ts", "Template:te", "Template:row"))
        ctx.db_conn.commit()
    return ctx


def run_text(ctx, acc, text, mode, case):
    out, root = check_parse(ctx, text, mode)
    acc.case()
    for c in out:
        acc.violation(c.split(":")[0] + ":" + c.split(":")[1] if c.startswith(("wf:", "exception:")) else c,
                      case, c, "well-formed ROOT tree, clean parser state")
    if root is not None:
        ks = kinds(root)
        if len(ks) >= 3:
            acc.distinct("shapes", shape(root))
        for k in ks:
            acc.sets["kinds"].add(k.value)


def work(payload, skip, report):
    acc = Acc(PROP)
    kind = payload[0]
    if kind == "tok":
        _, alpha, prefix, depth, lib, modes = payload
        alphabet = FOCUS[alpha[2:]] if alpha.startswith("F:") else {"T": TOKENS, "C": CORE, "L": LIBTOKENS}[alpha]
        ctx = make_ctx(lib)
        i = 0
        for rest in itertools.product(alphabet, repeat=depth - len(prefix)):
            toks = list(prefix) + list(rest)
            text = "".join(toks)
            for mode in modes:
                if i in skip:
                    acc.violation("returns_in_time", {"input": text, "mode": mode}, "hang", "returns")
                    i += 1
                    continue
                report(i)
                i += 1
                run_text(ctx, acc, text, mode, {"input": text, "mode": mode})
            if i % 20011 == 0:
                acc.sample({"input": text})
        close_ctx(ctx)
    elif kind == "texts":
        _, texts = payload
        ctx = make_ctx(True)
        i = 0
        for text in texts:
            for mode in ({}, {"expand_all": True}):
                if i in skip:
                    acc.violation("returns_in_time", {"input": text, "mode": mode}, "hang", "returns")
                    i += 1
                    continue
                report(i)
                i += 1
                run_text(ctx, acc, text, mode, {"input": text, "mode": mode})
        acc.sample({"input": texts[0]})
        close_ctx(ctx)
    elif kind == "tower":
        _, pairs = payload
        ctx = make_ctx(True)
        i = 0
        for op, cl in pairs:
            for d in range(1, 101):
                sep = "\n" if op in ("*", ":") else ""
                for variant, text in (("balanced", (op + sep) * d + "x" + cl * d if not sep else
                                       "\n".join(op * j + "x" for j in range(1, d + 1))),
                                      ("unclosed", (op + sep) * d + "x"),
                                      ("overclosed", op + "x" + cl * d)):
                    for mode in ({}, {"expand_all": True}):
                        if i in skip:
                            acc.violation("returns_in_time", {"input": text[:200], "depth": d, "open": op}, "hang", "returns")
                            i += 1
                            continue
                        report(i)
                        i += 1
                        run_text(ctx, acc, text, mode, {"input": text, "mode": mode, "depth": d, "open": op, "variant": variant})
            acc.sample({"tower": op, "depths": "1..100"})
        close_ctx(ctx)
    elif kind == "mut":
        _, page, lo, hi = payload
        ctx = make_ctx(False)
        text = open(os.path.join("/repo/tests", page), encoding="utf-8").read() \
            if os.path.exists(os.path.join("/repo/tests", page)) else ""
        toks = tokenize(text)
        i = 0
        for pos in range(lo, min(hi, len(toks) + 1)):
            muts = []
            if pos < len(toks):
                muts.append(("del", toks[:pos] + toks[pos + 1:]))
            for t in (INS_FULL if page == "fi-gradation.txt" else INS_FEW):
                muts.append(("ins:" + t, toks[:pos] + [t] + toks[pos:]))
            for label, tt in muts:
                if i in skip:
                    acc.violation("returns_in_time", {"page": page, "pos": pos, "mutation": label}, "hang", "returns")
                    i += 1
                    continue
                report(i)
                i += 1
                run_text(ctx, acc, "".join(tt), {}, {"page": page, "pos": pos, "mutation": label})
        acc.sample({"page": page, "positions": [lo, hi]})
        close_ctx(ctx)
    return acc


TOK_RE = re.compile(r"\{\{\{|\}\}\}|\{\{|\}\}|\[\[|\]\]|\{\||\|\}|\|-|\|\+|'''''|'''|''|==+|<[^<>\n]{1,40}>|\n|[|!*#:;=\[\]]|[^\s{}\[\]|!*#:;=<>']+|\s")


def tokenize(text):
    return TOK_RE.findall(text)


def replay(case):
    lib = True
    ctx = make_ctx(lib)
    try:
        if "input" in case:
            text = case["input"]
        else:
            text0 = open(os.path.join("/repo/tests", case["page"]), encoding="utf-8").read()
            toks = tokenize(text0)
            pos, m = case["pos"], case["mutation"]
            tt = toks[:pos] + toks[pos + 1:] if m == "del" else toks[:pos] + [m[4:]] + toks[pos:]
            text = "".join(tt)
        out, _ = check_parse(ctx, text, case.get("mode", {}))
    finally:
        close_ctx(ctx)
    res = []
    for c in out:
        o = c.split(":")[0] + ":" + c.split(":")[1] if c.startswith(("wf:", "exception:")) else c
        res.append({"oracle": o, "observed": c, "expected": "well-formed"})
    return res


def main(run):
    q = run.tier == "quick"
    chunks = []
    # (a) token strings, no library
    for d in (1, 2):
        chunks.append(("tok", "T", (), d, False, [{}]))
    for t in TOKENS:
        chunks.append(("tok", "T", (t,), 3, False, [{}]))
    if q:
        for t in CORE[:24]:
            chunks.append(("tok", "C", (t,), 4, False, [{}]))
    else:
        for t1 in TOKENS:
            for t2 in TOKENS[:: 1]:
                chunks.append(("tok", "T", (t1, t2), 4, False, [{}]))
        for t1 in CORE[:30]:
            for t2 in CORE[:30]:
                chunks.append(("tok", "C", (t1, t2), 5, False, [{}]))
    # (a2) focused alphabets, k = 4 and 5
    for name, alpha in FOCUS.items():
        for t in alpha:
            chunks.append(("tok", "F:" + name, (t,), 4, False, [{}]))
            chunks.append(("tok", "F:" + name, (t,), 5, False, [{}]))
            if not q:
                for t2 in alpha:
                    chunks.append(("tok", "F:" + name, (t, t2), 6, False, [{}]))
    # (b) with template library under the expansion modes
    for t in LIBTOKENS:
        chunks.append(("tok", "L", (t,), 3, True, MODES))
    if not q:
        for t1 in LIBTOKENS:
            for t2 in LIBTOKENS:
                chunks.append(("tok", "L", (t1, t2), 4, True, MODES))
    # (b2) page text with the package's own placeholder code points inside each construct
    for t in placeholder_texts():
        chunks.append(("texts", [t]))
    # (b3) a start tag that is never closed, followed by runs that can be cut into attribute names / values in many ways
    for t in unclosed_tag_texts():
        chunks.append(("texts", [t]))
    # (c) towers
    for p in TOWERS:
        chunks.append(("tower", [p]))
    # (d) one-token mutants of the real pages
    if not q:
        for page in PAGES:
            path = os.path.join("/repo/tests", page)
            if not os.path.exists(path):
                continue
            n = len(tokenize(open(path, encoding="utf-8").read()))
            step = 25
            for lo in range(0, n + 1, step):
                chunks.append(("mut", page, lo, lo + step))
    total = len(chunks)
    done = 0
    for cid, acc, hung in run_chunks(work, chunks, nproc=run.nproc, case_timeout=60):
        run.acc.merge(acc)
        done += 1
        if done % 500 == 0:
            run.log("chunks", done, "/", total, "parses", run.acc.n)
    nk = len(run.acc.sets.pop("kinds", ()))
    cov = {
        "distinct_nontrivial": len(run.acc.sets.get("shapes", ())),
        "rule": "every string t1..tk over the %d-token alphabet T for k<=%s (and k=%s over a %d-token core); every string of 4..%s tokens over each of %d focused "
                "12-token alphabets (links, tables, lists, html, calls, headings); every k<=%s string over "
                "a %d-token alphabet with calls to 8 structural templates under %d expansion modes; towers open^d x close^d, "
                "unclosed and over-closed for %d nestable constructs and every d in 1..100; 43 texts with the package's own placeholder code points inside each construct%s. Non-trivial = distinct tree skeleton "
                "(kinds + nesting, text ignored) with >= 3 node kinds."
                % (len(TOKENS), "3" if q else "4", "4" if q else "5", 24 if q else 30, "5" if q else "6", len(FOCUS), "3" if q else "4", len(LIBTOKENS),
                   len(MODES), len(TOWERS), "" if q else "; every single-token deletion at every position of the 3 real pages in /repo/tests, every insertion of "
                   "9 structural tokens at every token boundary of fi-gradation.txt and of 3 structural tokens at every boundary of the other two"),
        "node_kinds_seen": nk,
        "exhaustive": True,
    }
    assumptions = [
        "inputs do not contain the private-use placeholder code points U+10203D..U+10FFF0 (documented assumption of the package; see C15 / known findings)",
    ]
    return run.finish(cov, assumptions, replay_fn=replay)
