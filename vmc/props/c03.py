"""C03  Tables, HTML elements, links and template calls parse to their written structure.

Bounded exhaustive exploration with a generator that emits the wikitext *and*
the expected structure: tables from (rows, columns, separator style, caption,
attribute maps on table/row/cell, header pattern, content assignment); every
paired and void tag of the allowed-HTML table x attribute maps x contents;
links, external links, template calls, parser-function calls and parameter
references over all argument lists up to length 3.
"""
from __future__ import annotations

import itertools

from wikitextprocessor import WikiNode

from ..fixtures import close_ctx, new_ctx
from ..pool import run_chunks
from ..runner import Acc
from ..treeutil import K, dump

PROP = "C03"
LEVEL = "exploration"

CONT = ["x", "{{t|a}}", "[[l|m]]", "'''b'''", "''i''", '<span class="c">s</span>', "a!b", "x y", "{{lc:X}}", "{{#if:x|y}}", "x=1", "{{t|k=v}}", "{{#if:x|a!!b}}", "{{{p|c!!d}}}",
        "[[l]] | m", "<b>n</b> | o"]
ATTRS = [{}, {"class": "c"}, {"style": "s-1", "id": "i2"}, {"class": "a b"}, {"Title": "T", "data-ID": "x9"},   # names are kept as written
         {"data_x": "1.5_z~", "a.b": "v"}]                                                 # every URL-safe name character
HTML_SKIP = {"pre", "nowiki", "section", "noinclude", "includeonly", "onlyinclude", "math", "chem", "ce", "hiero", "score",
             "syntaxhighlight", "source", "templatestyles", "timeline", "gallery", "imagemap", "inputbox", "poem"}
URLS = ["http://x.y/a.", "https://x.y/?q=1&r=2,", "//x.y/p!", "ftp://x.y/a?", "http://x.y/a_(b)", "mailto:a@b.org", "http://x.y/a;b"]
ARG_ATOMS = ["text", " pad ", "{{c|1}}", "[[n]]", "k=v", "", "a b", "x:y", "2", "\n x=1", "\n* b", "\n", ":c", "[[n]]\n q", "{{lc:X}}", "{{#if:x|y|z}}", "a\n----\nb",
             # a piped link whose label holds a bracketed construct (the label becomes encodable only after the bracket pass)
             "[[n|b [c] d]]", "[[n|w[o]rd]]", "[[n|[http://x.y site]]]"]


def attrstr(a, quote='"'):
    return " ".join("%s=%s%s%s" % (k, quote, v, quote) for k, v in a.items())


def build(r, c, sep, cap, tattr, rattr, cattr, hdr, cont):
    L = ["{|" + (" " + attrstr(tattr) if tattr else "")]
    if cap:
        # (a third element "tight": no blank between the attribute bar and the caption text)
        tight = len(cap) > 2 and cap[2] == "tight"
        L.append("|+" + (" " + attrstr(cap[1]) + (" |" if tight else " | ") if cap[1] else "") + cap[0])
    norow = sep.endswith("_norow")      # the first row is not introduced by "|-" (legal; directly after "{|" or the caption)
    for i in range(r):
        if not (norow and i == 0 and not rattr):
            L.append("|-" + (" " + attrstr(rattr) if rattr else ""))
        cells = []
        for j in range(c):
            h = hdr == "row0" and i == 0 or hdr == "col0" and j == 0
            cells.append((h, (attrstr(cattr) + " | " if cattr else "") + cont(i, j)))
        pad = "" if sep.endswith("_tight") else " "     # "|x||y" as well as "| x || y"
        if sep.startswith("nl"):
            for h, t in cells:
                L.append(("!" if h else "|") + pad + t)
        else:
            line = ""
            for idx, (h, t) in enumerate(cells):
                if idx == 0:
                    line = ("!" if h else "|") + pad + t
                elif h == cells[idx - 1][0]:
                    line += pad + ("!!" if h else "||") + pad + t
                else:
                    L.append(line)
                    line = ("!" if h else "|") + pad + t
            L.append(line)
    L.append("|}")
    return "\n".join(L) + "\n"


def sig(children):
    """Whitespace-insensitive signature of a children list: dump with strings stripped, blanks dropped."""
    out = []
    for x in children:
        if isinstance(x, str):
            if x.strip():
                out.append(x.strip())
        else:
            out.append(dump(x))
    return out


class Expect:
    """Parses each distinct content standalone once (what the content is as a tree)."""

    def __init__(self, ctx):
        self.ctx = ctx
        self.memo = {}

    def of(self, text):
        if text not in self.memo:
            self.ctx.start_page("Tt")
            self.memo[text] = sig(self.ctx.parse(text).children)
        return self.memo[text]


def check_table(ctx, exp, spec):
    r, c, sep, cap, tattr, rattr, cattr, hdr, a, b, cc = spec
    cont = lambda i, j: CONT[(a + b * i + cc * j) % len(CONT)]  # noqa: E731
    src = build(r, c, sep, cap, tattr, rattr, cattr, hdr, cont)
    return src, judge_table(ctx, exp, src, r, c, cap, tattr, rattr, cattr, hdr, cont)


def judge_table(ctx, exp, src, r, c, cap, tattr, rattr, cattr, hdr, cont):
    out = []
    ctx.start_page("Tt")
    root = ctx.parse(src)
    ch = [x for x in root.children if not (isinstance(x, str) and not x.strip())]
    if len(ch) != 1 or not isinstance(ch[0], WikiNode) or ch[0].kind != K.TABLE:
        return [("one_table_node", dump(root)[2] if len(dump(root)) > 2 else dump(root), "exactly one TABLE")]
    t = ch[0]
    if t.attrs != tattr:
        out.append(("table_attrs", t.attrs, tattr))
    kids = [x for x in t.children if not (isinstance(x, str) and not x.strip())]
    caps = [x for x in kids if isinstance(x, WikiNode) and x.kind == K.TABLE_CAPTION]
    rows = [x for x in kids if isinstance(x, WikiNode) and x.kind == K.TABLE_ROW]
    if len(caps) + len(rows) != len(kids):
        out.append(("only_caption_and_rows_in_table", [k.kind.name if isinstance(k, WikiNode) else k for k in kids], "caption/rows"))
    if (1 if cap else 0) != len(caps):
        out.append(("caption_count", len(caps), 1 if cap else 0))
    elif cap:
        if caps[0].attrs != cap[1]:
            out.append(("caption_attrs", caps[0].attrs, cap[1]))
        if sig(caps[0].children) != exp.of(cap[0]):
            out.append(("caption_content", sig(caps[0].children), exp.of(cap[0])))
    if len(rows) != r:
        out.append(("row_count", len(rows), r))
        return out
    for i, row in enumerate(rows):
        if row.attrs != rattr:
            out.append(("row_attrs", row.attrs, rattr))
        cells = [x for x in row.children if not (isinstance(x, str) and not x.strip())]
        if len(cells) != c or not all(isinstance(x, WikiNode) for x in cells):
            out.append(("cell_count", [x.kind.name if isinstance(x, WikiNode) else x for x in cells], c))
            continue
        for j, cell in enumerate(cells):
            h = hdr == "row0" and i == 0 or hdr == "col0" and j == 0
            if cell.kind != (K.TABLE_HEADER_CELL if h else K.TABLE_CELL):
                out.append(("cell_kind", [i, j, cell.kind.name], "header" if h else "data"))
            if cell.attrs != cattr:
                out.append(("cell_attrs", [i, j, cell.attrs], cattr))
            if sig(cell.children) != exp.of(cont(i, j)):
                out.append(("cell_content", [i, j, sig(cell.children)], exp.of(cont(i, j))))
    return out


def table_specs(tier):
    q = tier == "quick"
    maxn = 3 if q else 4
    caps = [None, ("Cap", {}), ("Cap", {"class": "k"}), ("'''C'''", {}), ("-40 to 40", {"id": "c"}, "tight"), ("-ar", {}, "tight"),
            ("!x", {"id": "c"}, "tight")]
    for r, c in itertools.product(range(1, maxn + 1), repeat=2):
        for sep in ("nl", "inline", "nl_norow", "inline_norow"):
            for cap in caps:
                for tattr, rattr, cattr in itertools.product(ATTRS[:3], ATTRS[:2], ATTRS):
                    if sep.endswith("_norow") and (rattr or tattr):
                        continue
                    for hdr in ("none", "row0", "col0"):
                        for a, b, cc in itertools.product(range(8), (1, 3), (1, 2)):
                            yield (r, c, sep, cap, tattr, rattr, cattr, hdr, a, b, cc)


# contents with "!!" outside any call: a separator in header rows, plain text in data rows (tables without header cells only)
BANG_CONT = ["a!!b", "''a!!b''", "'''x!!y''' z", "<span>''p!!q''</span>", "x"]


def check_bang(ctx, exp, conts, sep):
    cont = lambda i, j: BANG_CONT[conts[i * 2 + j]]  # noqa: E731
    src = build(2, 2, sep, None, {}, {}, {}, "none", cont)
    return src, judge_table(ctx, exp, src, 2, 2, None, {}, {}, {}, "none", cont)


def check_full_2x2(ctx, exp, conts, sep, hdr):
    cont = lambda i, j: CONT[conts[i * 2 + j]]  # noqa: E731
    src = build(2, 2, sep, None, {}, {}, {}, hdr, cont)
    return src, judge_table(ctx, exp, src, 2, 2, None, {}, {}, {}, hdr, cont)


def html_cases(ctx):
    tags = sorted(ctx.allowed_html_tags)
    contents = ["x", "x y", "'''b'''", "[[l]]", "{{t|a}}", ""]
    for tag in tags:
        if tag in HTML_SKIP:
            continue
        void = bool(ctx.allowed_html_tags[tag].get("no-end-tag"))
        # unquoted values, and "/>" directly after the last one (<ref name=x/>, <br clear=all/>)
        for am in ATTRS[1:3]:
            a = " " + attrstr(am, "")
            yield tag, am, None, "<%s%s/>" % (tag, a)
            if void:
                yield tag, am, None, "<%s%s>" % (tag, a)
            else:
                yield tag, am, "x", "<%s%s>x</%s>" % (tag, a, tag)
        for am, quote in itertools.product(ATTRS, ('"', "'")):
            if void:
                yield tag, am, None, "<%s%s>" % (tag, " " + attrstr(am, quote) if am else "")
                yield tag, am, None, "<%s%s />" % (tag, " " + attrstr(am, quote) if am else "")
            else:
                for content in contents:
                    yield tag, am, content, "<%s%s>%s</%s>" % (tag, " " + attrstr(am, quote) if am else "", content, tag)


def check_html(ctx, exp, tag, am, content, src):
    ctx.start_page("Tt")
    root = ctx.parse("a " + src + " z")
    nodes = [x for x in root.children if isinstance(x, WikiNode)]
    texts = [x.strip() for x in root.children if isinstance(x, str)]
    out = []
    if len(nodes) != 1 or nodes[0].kind != K.HTML or nodes[0].sarg != tag:
        return [("one_element_node", dump(root)[2:], "text, HTML(%s), text" % tag)]
    n = nodes[0]
    if texts != ["a", "z"]:
        out.append(("element_does_not_swallow_siblings", texts, ["a", "z"]))
    if n.attrs != am:
        out.append(("element_attrs", n.attrs, am))
    if content is None:
        if n.children:
            out.append(("void_element_has_no_children", sig(n.children), []))
    elif sig(n.children) != exp.of(content):
        out.append(("element_content", sig(n.children), exp.of(content)))
    return out


def hash_mod(s):
    return sum(ord(c) for c in s)


def nests(tags, child, parent):
    """Whether `child` may be written inside `parent`, from the declared per-tag data (parents / content of the
    allowed-HTML table), independently of the parser's derived permitted-parent sets."""
    cp = tags[child].get("parents", [])
    pc = tags[parent].get("content", [])
    if tags[parent].get("no-end-tag") or not pc:
        return False
    if parent in cp:
        return True
    takes_flow = "flow" in pc or "*" in pc
    takes_phrasing = takes_flow or "phrasing" in pc
    if "*" in cp:
        return takes_phrasing
    if "flow" in cp and takes_flow:
        return True
    if "phrasing" in cp and takes_phrasing:
        return True
    return False


def nested_cases(ctx):
    tags = ctx.allowed_html_tags
    names = sorted(t for t in tags if t not in HTML_SKIP)
    for outer in names:
        if tags[outer].get("no-end-tag"):
            continue
        for inner in names:
            if inner == outer or not nests(tags, inner, outer):
                continue
            for am in (ATTRS[0], ATTRS[1]):
                a = " " + attrstr(am) if am else ""
                if tags[inner].get("no-end-tag"):
                    yield outer, inner, am, None, "<%s>p<%s%s>q</%s>" % (outer, inner, a, outer)
                else:
                    yield outer, inner, am, "r", "<%s>p<%s%s>r</%s>q</%s>" % (outer, inner, a, inner, outer)


def check_nested(ctx, outer, inner, am, content, src):
    ctx.start_page("Tt")
    root = ctx.parse("a " + src + " z")
    nodes = [x for x in root.children if isinstance(x, WikiNode)]
    texts = [x.strip() for x in root.children if isinstance(x, str)]
    if len(nodes) != 1 or nodes[0].kind != K.HTML or nodes[0].sarg != outer or texts != ["a", "z"]:
        return [("nested_element_stays_inside", dump(root)[2:], "text, HTML(%s)[p, HTML(%s), q], text" % (outer, inner))]
    ch = nodes[0].children
    inn = [x for x in ch if isinstance(x, WikiNode)]
    if len(inn) != 1 or inn[0].kind != K.HTML or inn[0].sarg != inner or [x.strip() for x in ch if isinstance(x, str)] != ["p", "q"]:
        return [("nested_element_stays_inside", sig(ch), ["p", "HTML(%s)" % inner, "q"])]
    out = []
    if inn[0].attrs != am:
        out.append(("element_attrs", inn[0].attrs, am))
    if sig(inn[0].children) != ([content] if content else []):
        out.append(("element_content", sig(inn[0].children), [content] if content else []))
    return out


# An element whose content starts with an EMPTY element and goes on with content that depends on line starts or on quote
# runs: the content is the one the element has without the empty element, plus that element in front.
HOLD_OUTER = ["div", "blockquote", "center", "td", "li", "span"]
HOLD_EMPTY = ['<span id="anchor"></span>', "<b></b>", '<ref name="x"></ref>', "<br>", '<span id="a"></span><i></i>']
HOLD_BLOCKS = ["{|\n|a\n|b\n|-\n|c\n|d\n|}", "* i\n* j", "''it'' and '''b'''", ":x\n:y", "t\n----\nu", "{{t|a}}\n[[l|m]]"]


def check_hold(ctx, outer, empty, block, tail):
    def content(pre):
        ctx.start_page("Tt")
        root = ctx.parse('<%s class="box">%s\n%s\n</%s>%s' % (outer, pre, block, outer, tail))
        nodes = [x for x in root.children if isinstance(x, WikiNode) and x.kind == K.HTML and x.sarg == outer]
        if len(nodes) != 1:
            return None, dump(root)[2:]
        return nodes[0], dump(root)[2:]
    base, bd = content("")
    node, d = content(empty)
    src = '<%s class="box">%s\n%s\n</%s>%s' % (outer, empty, block, outer, tail)
    if base is None:
        return src, []          # (the container does not take this content as one element even without the empty element)
    if node is None:
        return src, [("element_holds_its_content", d, bd)]
    n_empty = empty.count("<") // 2 if "</" in empty else 1
    got = sig(node.children)
    want = sig(base.children)
    if got[n_empty:] != want or len(got) != n_empty + len(want):
        return src, [("element_holds_its_content", got, ["(%d empty element(s))" % n_empty] + want)]
    return src, []


def arg_expect(exp, atom, kind):
    """Expected argument list for one written argument: plain text stays one verbatim string, a nested
    call / link becomes its node."""
    if atom == "":
        return []
    if atom == "[[n]]\n q":
        return exp.of("[[n]]") + ["\n q"]
    if atom.startswith(("{{", "[[")):
        return exp.of(atom)
    return [atom]


def call_cases():
    for n in (0, 1, 2, 3):
        for args in itertools.product(ARG_ATOMS, repeat=n):
            yield args


def check_call(ctx, exp, form, args):
    out = []
    if form == "template":
        src, kind, head = "{{name" + "".join("|" + a for a in args) + "}}", K.TEMPLATE, "name"
    elif form == "parserfn":
        if not args:
            return None, []
        src, kind, head = "{{#if:" + "|".join(args) + "}}", K.PARSER_FN, "#if"
    elif form == "param":
        src, kind, head = "{{{name" + "".join("|" + a for a in args) + "}}}", K.TEMPLATE_ARG, "name"
    elif form == "link":
        if any("[[" in a or "\n" in a for a in args[:1]) or any("[[" in a for a in args):
            return None, []
        src, kind, head = "[[name" + "".join("|" + a for a in args) + "]]", K.LINK, "name"
    elif form == "extlink":
        if len(args) > 1 or any(("[" in a or "{" in a or "\n" in a) for a in args):
            return None, []
        src, kind, head = "[http://x.y/p" + (" " + args[0] if args and args[0].strip() else "") + "]", K.URL, "http://x.y/p"
    if form.startswith("extlink:"):
        # other URL spellings inside the brackets: the URL is everything up to the first blank, as written
        url = form[8:]
        if len(args) > 1 or any(("[" in a or "{" in a or "\n" in a) for a in args):
            return None, []
        src, kind, head = "[" + url + (" " + args[0] if args and args[0].strip() else "") + "]", K.URL, url
        form = "extlink"
    ctx.start_page("Tt")
    root = ctx.parse(src)
    nodes = [x for x in root.children if isinstance(x, WikiNode)]
    if len(root.children) != 1 or len(nodes) != 1 or nodes[0].kind != kind:
        return src, [("one_%s_node" % form, dump(root)[2:], kind.name)]
    n = nodes[0]
    got = [[(x if isinstance(x, str) else dump(x)) for x in a] for a in n.largs]
    if form == "extlink":
        want = [[head]] + ([[args[0].strip()]] if args and args[0].strip() else [])
        got = [[(x.strip() if isinstance(x, str) else x) for x in a] for a in got]
    else:
        want = [[head]] + [arg_expect(exp, a, form) for a in args]
    if got != want:
        out.append(("%s_arguments" % form, got, want))
    return src, out


def work(payload, skip, report):
    acc = Acc(PROP)
    kind = payload[0]
    ctx = new_ctx()
    exp = Expect(ctx)
    i = 0
    if kind == "tables":
        _, tier, k, n = payload
        for spec in itertools.islice(table_specs(tier), k, None, n):
            report(i)
            i += 1
            src, res = check_table(ctx, exp, spec)
            acc.case()
            acc.distinct("inputs", src)
            for o, ob, ex in res:
                acc.violation(o, {"input": src, "kind": "table", "spec": list(spec)}, ob, ex)
            if i % 4001 == 1:
                acc.sample({"input": src})
    elif kind == "full2x2":
        _, firsts = payload
        for f0 in firsts:
            for rest in itertools.product(range(len(CONT)), repeat=3):
                for sep, hdr in list(itertools.product(("nl", "inline"), ("none", "row0", "col0"))) + [("nl_tight", "none"), ("inline_tight", "none"),
                                                                                                        ("inline_tight", "row0")]:
                    report(i)
                    i += 1
                    src, res = check_full_2x2(ctx, exp, (f0,) + rest, sep, hdr)
                    acc.case()
                    acc.distinct("inputs", src)
                    for o, ob, ex in res:
                        acc.violation(o, {"input": src, "kind": "full2x2", "spec": [list((f0,) + rest), sep, hdr]}, ob, ex)
    elif kind == "html":
        for tag, am, content, src in html_cases(ctx):
            report(i)
            i += 1
            res = check_html(ctx, exp, tag, am, content, src)
            acc.case()
            acc.distinct("inputs", src)
            for o, ob, ex in res:
                acc.violation(o, {"input": src, "tag": tag, "kind": "html", "spec": [tag, am, content, src]}, ob, ex)
        acc.sample({"html_tags": len([t for t in ctx.allowed_html_tags if t not in HTML_SKIP])})
    elif kind == "same_page":
        for first, second in itertools.product(UNFINISHED, SECOND_DOCS):
            report(i)
            i += 1
            res = check_same_page(ctx, first, second)
            acc.case()
            acc.distinct("inputs", [first, second])
            for o, ob, ex in res:
                acc.violation(o, {"first": first, "input": second, "kind": "same_page"}, ob, ex)
        acc.sample({"first": UNFINISHED[0], "input": SECOND_DOCS[0]})
        for outer, empty, block, tail in itertools.product(HOLD_OUTER, HOLD_EMPTY, HOLD_BLOCKS, ("", " z", "\n<i>k</i>")):
            report(i)
            i += 1
            src, res = check_hold(ctx, outer, empty, block, tail)
            acc.case()
            acc.distinct("inputs", src)
            for o, ob, ex in res:
                acc.violation(o, {"input": src, "kind": "hold", "spec": [outer, empty, block, tail]}, ob, ex)
        for conts, sep in itertools.product(itertools.product(range(len(BANG_CONT)), repeat=4), ("nl", "inline", "inline_tight")):
            report(i)
            i += 1
            src, res = check_bang(ctx, exp, conts, sep)
            acc.case()
            acc.distinct("inputs", src)
            for o, ob, ex in res:
                acc.violation(o, {"input": src, "kind": "bang", "spec": [list(conts), sep]}, ob, ex)
        for (esc, live, k), order in itertools.product(TWINS, (0, 1, 2)):
            report(i)
            i += 1
            doc, res = check_twins(ctx, esc, live, k, order)
            acc.case()
            acc.distinct("inputs", doc)
            for o, ob, ex in res:
                acc.violation(o, {"input": doc, "kind": "twins", "spec": [esc, live, k, order]}, ob, ex)
    elif kind == "nested":
        for outer, inner, am, content, src in nested_cases(ctx):
            if hash_mod(outer) % payload[2] != payload[1]:
                continue
            report(i)
            i += 1
            res = check_nested(ctx, outer, inner, am, content, src)
            acc.case()
            acc.distinct("inputs", src)
            acc.count("nested_pairs")
            for o, ob, ex in res:
                acc.violation(o, {"input": src, "outer": outer, "inner": inner, "kind": "nested", "spec": [outer, inner, am, content, src]}, ob, ex)
    else:
        _, form = payload
        for args in call_cases():
            report(i)
            i += 1
            src, res = check_call(ctx, exp, form, list(args))
            if src is None:
                continue
            acc.case()
            acc.distinct("inputs", src)
            for o, ob, ex in res:
                acc.violation(o, {"input": src, "args": list(args), "kind": "call", "spec": [form, list(args)]}, ob, ex)
            if i % 301 == 1:
                acc.sample({"input": src})
    close_ctx(ctx)
    return acc


# A second parse() on the same page: a text that ends inside an unfinished construct must not change how the next text
# of the page is parsed (differential: the same document on a freshly started page).
UNFINISHED = ["an example:\n<pre>\nfoo(bar)\n", "{|\n|a", "''i", "'''b ''i", "[[a|b", "{{t|x", "{{{p|", "<div>d", "<nowiki>n", "* l\n** m",
              "==h", '<span title="q', "[http://x.y t", "<ref>r", ";t", "<!-- c"]
SECOND_DOCS = ['{| class="c"\n|+ cap\n|-\n! h1 !! h2\n|-\n| style="s" | a || b\n|}\n', '<span class="c" id="i">content</span> <b>bold</b>',
               "{{t|a|k=v}} [[l|text]] {{#if:x|y}} [http://x.y label]", "* item\n** sub\n'''bold''' ''it''\n== H ==\ntext\n",
               "<div>a<ul><li>b</li></ul></div>\n{|\n|x\n|}\n"]


# a construct written as text (its brackets split by <nowiki/>) and the same construct live, with identical arguments
TWINS = [("{<nowiki/>{t|a|k=v}}", "{{t|a|k=v}}", "TEMPLATE"), ("{{t|a|k=v}<nowiki/>}", "{{t|a|k=v}}", "TEMPLATE"),
         ("[<nowiki/>[l|text]]", "[[l|text]]", "LINK"), ("{<nowiki/>{#if:x|y}}", "{{#if:x|y}}", "PARSER_FN"),
         ("{<nowiki/>{{p|c}}}", "{{{p|c}}}", "TEMPLATE_ARG")]      # (no bracketed-URL twin: the bare URL inside the split brackets is a link of its own)
UNFINISHED += [t[0] for t in TWINS] + [t[1] for t in TWINS]
SECOND_DOCS += [" and ".join(t[0] for t in TWINS), " and ".join(t[1] for t in TWINS)]


def count_kind(node, kind):
    from wikitextprocessor import WikiNode
    n = 0
    stack = [node]
    while stack:
        x = stack.pop()
        if isinstance(x, WikiNode):
            if x.kind.name == kind:
                n += 1
            stack.extend(x.children)
            for a in (getattr(x, "largs", None) or []):
                stack.extend(a)
        elif isinstance(x, (list, tuple)):
            stack.extend(x)
    return n


def check_twins(ctx, esc, live, kind, order):
    """The escaped and the live spelling in one document: exactly the live one is a node."""
    doc = "Write %s to get %s" % ((esc, live) if order == 0 else (live, esc))
    if order == 2:
        doc = "{|\n| %s || %s\n|}" % (esc, live)
    ctx.start_page("Tt")
    try:
        n = count_kind(ctx.parse(doc), kind)
    except Exception as e:
        return doc, [("twin_spellings_one_node", "EXC " + type(e).__name__ + ": " + str(e)[:80], 1)]
    return doc, ([] if n == 1 else [("twin_spellings_one_node", {"kind": kind, "nodes": n}, 1)])


def check_same_page(ctx, first, second):
    ctx.start_page("Tt")
    want = dump(ctx.parse(second))
    ctx.start_page("Tt")
    try:
        ctx.parse(first)
        got = dump(ctx.parse(second))
    except Exception as e:
        return [("same_page_second_parse", "EXC " + type(e).__name__ + ": " + str(e)[:80], want)]
    if got != want:
        return [("same_page_second_parse", got, want)]
    return []


def replay(case):
    if case.get("kind") == "twins":
        ctx = new_ctx()
        try:
            _, res = check_twins(ctx, *case["spec"])
        finally:
            close_ctx(ctx)
        return [{"oracle": o, "observed": ob, "expected": ex} for o, ob, ex in res]
    if case.get("kind") == "same_page":
        ctx = new_ctx()
        try:
            res = check_same_page(ctx, case["first"], case["input"])
        finally:
            close_ctx(ctx)
        return [{"oracle": o, "observed": ob, "expected": ex} for o, ob, ex in res]
    ctx = new_ctx()
    exp = Expect(ctx)
    try:
        k, spec = case.get("kind"), case.get("spec")
        if k == "table":
            r, c, sep, cap, tattr, rattr, cattr, hdr, a, b, cc = spec
            _, res = check_table(ctx, exp, (r, c, sep, tuple(cap) if cap else None, tattr, rattr, cattr, hdr, a, b, cc))
        elif k == "hold":
            _, res = check_hold(ctx, spec[0], spec[1], spec[2], spec[3])
        elif k == "bang":
            _, res = check_bang(ctx, exp, tuple(spec[0]), spec[1])
        elif k == "full2x2":
            _, res = check_full_2x2(ctx, exp, tuple(spec[0]), spec[1], spec[2])
        elif k == "html":
            res = check_html(ctx, exp, spec[0], spec[1], spec[2], spec[3])
        elif k == "nested":
            res = check_nested(ctx, spec[0], spec[1], spec[2], spec[3], spec[4])
        elif k == "call":
            _, res = check_call(ctx, exp, spec[0], spec[1])
        else:
            return None
    finally:
        close_ctx(ctx)
    return [{"oracle": o, "observed": ob, "expected": ex} for o, ob, ex in res]


def main(run):
    n = 64
    chunks = [("tables", run.tier, k, n) for k in range(n)]
    for f0 in range(len(CONT)):
        chunks.append(("full2x2", [f0]))
    chunks.append(("html",))
    chunks.append(("same_page",))
    for k in range(8):
        chunks.append(("nested", k, 8))
    for form in ("template", "parserfn", "param", "link", "extlink"):
        chunks.append(("call", form))
    for url in URLS:
        chunks.append(("call", "extlink:" + url))
    for cid, acc, hung in run_chunks(work, chunks, nproc=run.nproc, case_timeout=30):
        run.acc.merge(acc)
    q = run.tier == "quick"
    cov = {
        "distinct_nontrivial": len(run.acc.sets.get("inputs", ())),
        "rule": "tables: rows x columns in 1..%d, newline / inline (|| !!) separators, 7 caption forms (three with text that starts like a table marker, glued to the bar), 3 table x 2 row x 5 cell attribute "
                "maps, 3 header patterns, affine content assignments cell(i,j)=K[(a+b*i+c*j) mod 16] over 16 contents (text, template, two colon-form parser functions, text and a template argument with '=', "
                "piped link, bold, italic, inline HTML, text with '!', two words); the full product of contents for 2x2 grids; every "
                "paired and void tag of the allowed-HTML table (special-purpose tags excluded) x 5 attribute maps (one with mixed-case names) x 2 quote styles x 6 "
                "contents; every ordered pair (outer, inner) of those tags where the declared parents/content data permit the nesting, "
                "written <outer>p<inner>r</inner>q</outer> with and without an attribute map on the inner element; template / parser-function / parameter / link calls with every argument list of length <= 3 over %d atoms "
                "and external links; %d texts that end inside an unfinished construct x %d documents parsed next on the same page. distinct = distinct generated inputs." % (3 if q else 4, len(ARG_ATOMS), len(UNFINISHED), len(SECOND_DOCS)),
        "exhaustive": True,
    }
    assumptions = [
        "the expected content of a cell / element / argument is that content parsed standalone (differential), compared up to surrounding whitespace that the table syntax itself introduces",
        "attribute names/values are URL-safe",
    ]
    return run.finish(cov, assumptions, replay_fn=replay)
