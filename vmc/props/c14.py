"""C14  All three views of a template call's arguments agree.

Bounded exhaustive exploration: every argument list up to a length bound over a
13-atom alphabet (positional, named, numeric-named, blanks, leading/inner
newlines), restricted to the property's domain (distinct names, non-blank
values, no trailing newline).  The parsed node's template_parameters, the map
template_fn receives during expand(), and what a Lua module sees through
#invoke must be equal to each other and to the one-line reference rule.
"""
from __future__ import annotations

import itertools

from ..fixtures import close_ctx, new_ctx
from ..pool import run_chunks
from ..runner import Acc

PROP = "C14"
LEVEL = "exploration"

ATOMS = ["a", " a", "a ", " a ", "\na", "a\nb", "k=v", " k = v ", "k=\nv", "2=v", "02=v", "k= v w ", "x y",
         "3= p ", "j =w", "m=v\nw", " n = a\n b ", " 4 =q", "\n5 = r\n", "²=s", "٣=t",
         # names Lua's tonumber() accepts but the argument rule keeps as strings
         "0=z", "-1=n", "1e1=e", "0x10=h", "1.0=f",
         # a positional value with a line made of blanks only; names with a quote / an ampersand / a run of blanks
         " \na", "a\n \nb", "1001=big", "a  b=c", "a'b=c", "a&b=d",
         # square brackets that are not a link
         "he [sic] said", "w=[1]",
         # a positional value that starts with blanks and an exclamation mark (the header-cell marker of tables)
         " !b"]
SMALL = ["a", " b ", "k=v", "2=w", "\nc"]
ECHO = r"""
local e = {}
function e.dump(frame)
  local keys = {}
  for k, v in pairs(frame.args) do keys[#keys+1] = k end
  table.sort(keys, function(a,b) return tostring(a) < tostring(b) end)
  local out = {}
  for _, k in ipairs(keys) do out[#out+1] = type(k) .. ":" .. tostring(k) .. "=<" .. frame.args[k] .. ">" end
  return table.concat(out, ";;")
end
return e
"""


def key_of(k):
    k = k.strip()
    return int(k) if k.isascii() and k.isdigit() and int(k) > 0 else k


def ref(lst):
    d, num = {}, 1
    for a in lst:
        if "=" in a:
            k, v = a.split("=", 1)
            d[key_of(k)] = v.strip()
        else:
            d[num] = a
            num += 1
    return d


def in_domain(lst):
    keys, num = [], 1
    for a in lst:
        if "=" in a:
            keys.append(key_of(a.split("=", 1)[0]))
        else:
            keys.append(num)
            num += 1
            if a.endswith("\n"):
                return False
    return len(set(keys)) == len(keys)


def make_ctx():
    ctx = new_ctx(lua=True)
    ctx.add_page("Module:echo", 828, ECHO, model="Scribunto")
    ctx.add_page("Template:t", 10, "T")
    ctx.db_conn.commit()
    return ctx


def views(ctx, lst):
    txt = "|".join(lst)
    ctx.start_page("Tt")
    root = ctx.parse("{{t|%s}}" % txt)
    node = root.children[0]
    v1 = dict(node.template_parameters) if hasattr(node, "template_parameters") else {"?": "not a template node"}
    cap = {}

    def tf(name, ht):
        cap.update(ht)
        return None

    ctx.start_page("Tt")
    ctx.expand("{{t|%s}}" % txt, template_fn=tf)
    v2 = dict(cap)
    ctx.start_page("Tt")
    out = ctx.expand("{{#invoke:echo|dump|%s}}" % txt)
    v3 = {}
    for part in out.split(";;"):
        if not part:
            continue
        try:
            typ, rest = part.split(":", 1)
            k, v = rest.split("=<", 1)
            v3[int(k) if typ == "number" else k] = v[:-1]
        except ValueError:
            v3["?"] = out[:100]
    return v1, v2, v3


def body_views(ctx, lst):
    """The same calls written in the BODY of a template (template_fn view of {{t|...}}, Lua view of {{#invoke:echo|dump|...}})."""
    txt = "|".join(lst)
    ctx.add_page("Template:c14body", 10, "{{t|%s}}" % txt)
    ctx.add_page("Template:c14bodylua", 10, "{{#invoke:echo|dump|%s}}" % txt)
    cap = {}

    def tf(name, ht):
        if name == "t":
            cap.update(ht)
        return None

    ctx.start_page("Tt")
    ctx.expand("{{c14body}}", template_fn=tf)
    ctx.start_page("Tt")
    out = ctx.expand("{{c14bodylua}}")
    v3 = {}
    for part in out.split(";;"):
        if not part:
            continue
        try:
            typ, rest = part.split(":", 1)
            k, v = rest.split("=<", 1)
            v3[int(k) if typ == "number" else k] = v[:-1]
        except ValueError:
            v3["?"] = out[:100]
    return dict(cap), v3


def check(ctx, lst):
    v1, v2, v3 = views(ctx, lst)
    r = ref(lst)
    out = []
    # written in a template body the call has the views it has on a page (up to the one trailing newline of a positional
    # value that substitution into a body drops: known finding K04 of C04)
    if not any("{{{" in a for a in lst):
        b2, b3 = body_views(ctx, lst)
        cut = lambda d: {k: (v[:-1] if isinstance(k, int) and isinstance(v, str) and v.endswith("\n") else v) for k, v in d.items()}  # noqa: E731
        jsb = lambda d: sorted(((str(type(k).__name__), str(k)), v) for k, v in d.items())  # noqa: E731
        if cut(b2) != cut(v2):
            out.append(("expander_view_of_a_call_in_a_template_body", jsb(b2), jsb(v2)))
        if cut(b3) != cut(v3):
            out.append(("lua_view_of_a_call_in_a_template_body", jsb(b3), jsb(v3)))
    js = lambda d: sorted(((str(type(k).__name__), str(k)), v) for k, v in d.items())  # noqa: E731
    if v1 != r:
        # known finding: the tokenizer drops lines that consist of blanks only, in argument values too
        import re as _re
        blank_line = any(_re.search(r"(^|\n)[ \t]+(\n|$)", a) for a in lst if "=" not in a)
        # known finding: blanks before a '!' at the start of a value (or of one of its lines) are consumed with the '!' token
        bang = any(_re.search(r"(^|\n)[ \t]+!", a) for a in lst if "=" not in a)
        out.append(("parser_view_blank_only_line" if blank_line else "parser_view_blanks_before_exclamation_mark" if bang
                    else "parser_view_equals_rule", js(v1), js(r)))
    # known finding: the three places use different heuristics for which characters may occur in a name
    odd = "_name_with_quote_or_ampersand" if any(("=" in a and any(ch in a.split("=", 1)[0] for ch in "'&[]")) for a in lst) else ""
    if v2 != r:
        out.append(("expander_view_equals_rule" + odd, js(v2), js(r)))
    if v3 != r:
        big = any(isinstance(k, int) and k > 1000 for k in r)   # deliberate clamp of numbered names above 1000 (with a warning)
        out.append(("lua_view_index_above_1000" if big else "lua_view_equals_rule" + odd, js(v3), js(r)))
    return out


def work(payload, skip, report):
    acc = Acc(PROP)
    alpha, prefix, length = payload
    alphabet = ATOMS if alpha == "A" else SMALL
    ctx = make_ctx()
    i = 0
    for rest in itertools.product(alphabet, repeat=length - len(prefix)):
        lst = list(prefix) + list(rest)
        if not in_domain(lst):
            continue
        report(i)
        i += 1
        out = check(ctx, lst)
        acc.case()
        acc.distinct("maps", sorted((str(k), v) for k, v in ref(lst).items()))
        for oracle, obs, exp in out:
            acc.violation(oracle, {"args": lst, "call": "{{t|" + "|".join(lst) + "}}"}, obs, exp)
        if i % 701 == 0:
            acc.sample({"args": lst})
    close_ctx(ctx)
    return acc


# --- arguments next to an argument that holds a nested construct (a call, a link, a parameter reference, a URL) ------------

NEST = ["{{t}}", "x{{t}}y", "[[l]]", "{{{1}}}", "[http://x.y z]", "{{t|{{t}}}}", "k=\n v", "\n w", "4=\n*z", "a", "j=\n;d", "\n:e", "m=a\n----"]
LINE_START_KINDS = {"PREFORMATTED", "LIST", "LIST_ITEM", "HLINE", "LEVEL1", "LEVEL2", "LEVEL3", "LEVEL4", "LEVEL5", "LEVEL6", "TABLE"}


def flat(ctx, v):
    """A parser-view value as text, and the kinds of the nodes in it (at any depth)."""
    from wikitextprocessor import WikiNode
    kinds = []

    def walk(x):
        if isinstance(x, (list, tuple)):
            for y in x:
                walk(y)
        elif isinstance(x, WikiNode):
            kinds.append(x.kind.name)
            walk(x.children)
            walk(getattr(x, "largs", None) or [])
    walk(v)
    if isinstance(v, str):
        return v, kinds
    return ctx.node_to_wikitext(v), kinds


def work_nested(payload, skip, report):
    acc = Acc(PROP)
    _, prefix, length = payload
    ctx = make_ctx()
    i = 0
    for rest in itertools.product(NEST, repeat=length - len(prefix)):
        lst = list(prefix) + list(rest)
        if not in_domain(lst):
            continue
        report(i)
        i += 1
        acc.case()
        case = {"args": lst, "call": "{{t|" + "|".join(lst) + "}}", "slice": "nested"}
        try:
            v1, v2, v3 = views(ctx, lst)
        except Exception as e:
            acc.violation("no_exception", case, type(e).__name__ + ": " + str(e)[:100], "returns")
            continue
        r = ref(lst)
        rexp = {k: v.replace("{{t|{{t}}}}", "T").replace("{{t}}", "T") for k, v in r.items()}
        acc.distinct("maps", sorted((str(k), v) for k, v in r.items()))
        js = lambda d: sorted(((str(type(k).__name__), str(k)), str(v)) for k, v in d.items())  # noqa: E731
        if v2 != rexp:
            acc.violation("expander_view_equals_rule", case, js(v2), js(rexp))
        if v3 != rexp:
            acc.violation("lua_view_equals_rule", case, js(v3), js(rexp))
        if set(v1) != set(r):
            acc.violation("parser_view_equals_rule", case, js(v1), js(r))
        else:
            for k, v in v1.items():
                text, kinds = flat(ctx, v)
                bad = sorted(set(kinds) & LINE_START_KINDS)
                if bad:
                    # in the other two views a line start inside an argument is text: the node view agrees
                    acc.violation("parser_view_argument_line_start_is_text", case, {"name": str(k), "kinds": bad}, "text")
                elif isinstance(v, str) and v != r[k]:
                    acc.violation("parser_view_equals_rule", case, js(v1), js(r))
        if i % 301 == 0:
            acc.sample(case)
    close_ctx(ctx)
    return acc


def replay(case):
    ctx = make_ctx()
    try:
        out = check(ctx, case["args"])
    finally:
        close_ctx(ctx)
    return [{"oracle": o, "observed": ob, "expected": ex} for o, ob, ex in out]


def main(run):
    q = run.tier == "quick"
    chunks = [("A", (), 1), ("A", (), 2)]
    for a in ATOMS:
        chunks.append(("A", (a,), 3))
    if not q:
        for a in ATOMS:
            for b in ATOMS:
                chunks.append(("A", (a, b), 4))
    for a in SMALL:
        for L in ((4, 5) if q else (5, 6, 7)):
            chunks.append(("S", (a,), L))
    for cid, acc, hung in run_chunks(work, chunks, nproc=run.nproc, case_timeout=30):
        run.acc.merge(acc)
    nchunks = [("N", (), 1), ("N", (), 2)] + [("N", (a,), 3) for a in NEST] + ([] if q else [("N", (a, b), 4) for a in NEST for b in NEST])
    for cid, acc, hung in run_chunks(work_nested, nchunks, nproc=run.nproc, case_timeout=30):
        run.acc.merge(acc)
    cov = {
        "distinct_nontrivial": len(run.acc.sets.get("maps", ())),
        "rule": "every argument list of length <= %d over %d atoms and of length <= %d over a 5-atom sub-alphabet, filtered to the "
                "domain (distinct names, no positional value ending in a newline); three views compared with each other through the "
                "reference rule. distinct = distinct reference argument maps." % (3 if q else 4, len(ATOMS), 5 if q else 7),
        "exhaustive": True,
    }
    assumptions = ["the echo Lua module and the ustring stand-in are fixtures; values are plain text (no nested calls; those are C08)",
                   "nested slice: every argument list of length <= %d over %d atoms of which 6 hold a construct that closes inside the argument (call, link, parameter reference, URL, call in a call) and 6 have a line start that would be markup outside a call: names and values of the expander and Lua views against the rule, names of the node view against the rule, plain node-view values against the rule, and no line-start node (list, preformatted, heading, rule, table) anywhere inside a node-view value" % (3 if q else 4, len(NEST))]
    return run.finish(cov, assumptions, replay_fn=replay)
