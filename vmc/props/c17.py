"""C17  Template analysis marks exactly the closure of structure-affecting templates.

Bounded exhaustive exploration against a least-fixpoint reference: every
inclusion digraph on <= 3 templates (thorough: 4) x every classifier flag set x
every single-redirect placement x 4 naming schemes, plus chain/ring/diamond/
star/two-SCC/complete families on 5..8 templates.
"""
from __future__ import annotations

import signal

from ..fixtures import close_ctx, new_ctx
from ..pool import run_chunks
from ..runner import Acc

PROP = "C17"
LEVEL = "exploration"
SCHEMES = {
    "plain": ["A", "B", "C", "D", "E", "F", "G", "H"],
    "space": ["a b", "B c", "C  d".replace("  ", " "), "D e", "E f", "F g", "G h", "H i"],
    "unicode": ["Ünï", "Ωmega", "日本", "Ж", "É", "ß", "Ñ", "Ø"],
    "lower": ["abc", "bcd", "cde", "def", "efg", "fgh", "ghi", "hij"],
    # every name is a suffix (prefix) of all later ones: includer titles that end (begin) like the included name
    "suffix": ["n", "un", "oun", "noun", "-noun", "a-noun", "la-noun", "Ala-noun"],
    "prefix": ["c", "ci", "cit", "cite", "cite-", "cite-b", "cite-bo", "cite-boo"],
    # distinct pages whose titles differ in the case of the first letter only (both can exist; an exact title wins a lookup)
    "case_twins": ["Foo", "foo", "Bar", "bar", "Baz", "baz", "Q", "q"],
}


class Timeout(BaseException):
    pass


def _alarm(*a):
    raise Timeout()


def reference(n, succ, flagged, red):
    """Least fixpoint over inclusions (the redirect page R is an ordinary node: it can be flagged and be
    included), then one step of redirect marking in both directions."""
    succ = {i: set(v) for i, v in succ.items()}
    marked = set(flagged)
    second = None
    if red is not None:
        t, rflag, inc = red[:3]
        second = red[3] if len(red) > 3 else None
        succ["R"] = set()
        if inc is not None:
            succ[inc].add("R")
        if rflag:
            marked.add("R")
    ch = True
    while ch:
        ch = False
        for i in succ:
            if i not in marked and succ[i] & marked:
                marked.add(i)
                ch = True
    want = set(marked)
    if red is not None:
        # the two redirect statements, in the order the analysis runs them: first every redirect whose target is marked,
        # then every target of a marked redirect (8.3: the redirect layer is one pass, not a fixpoint)
        redirects = {"R": t}
        if second == "toR":
            redirects["Rb"] = "R"
        elif second == "toT":
            redirects["Rb"] = t
        s1 = want | {x for x, y in redirects.items() if y in want}
        want = s1 | {y for x, y in redirects.items() if x in s1}
    return want


_TIMEOUTS = [0]   # per worker process: after a few non-terminating cases the rest of the chunk is not executed


HISTORIES = ["single", "premarked", "flagged_first", "last_late", "marked_includer_first", "looked_up_before"]


def run_case(ctx, n, edges, fl, red, names, history="single"):
    if _TIMEOUTS[0] >= 3:
        return [("analysis_terminates", "not executed: 3 earlier cases of this chunk did not terminate", "returns")]
    succ = {i: set(j for (a, j) in edges if a == i) for i in range(n)}
    flagged = {i for i in range(n) if fl >> i & 1}
    ctx.db_conn.execute("DELETE FROM pages")
    # histories: the same final page set and classifier, reached differently
    #   premarked             flagged templates are stored with the flag already set (what a page override file does)
    #   flagged_first         the flagged templates arrive and are analysed first, then the others arrive
    #   last_late             all but the last template are analysed, then the last one arrives
    #   marked_includer_first templates that include a flagged one arrive with them, the rest later
    if history == "flagged_first":
        late = [i for i in range(n) if i not in flagged]
    elif history == "last_late":
        late = [n - 1] if n > 1 else []
    elif history == "marked_includer_first":
        late = [i for i in range(n) if i not in flagged and not (succ[i] & flagged)]
    else:
        late = []
    if len(late) == n:
        late = []
    for i in range(n):
        if i not in late:
            ctx.add_page("Template:" + names[i], 10, "body%d" % i, need_pre_expand=(history == "premarked" and i in flagged))
    ctx.add_page("Plain page", 0, "main namespace page")
    ctx.add_page("Module:m", 828, "return {}", model="Scribunto")
    if red is not None and not (late and red[0] in late):
        ctx.add_page("Template:R", 10, redirect_to="Template:" + names[red[0]])
    if red is not None and len(red) > 3 and red[3]:
        # a second redirect page: to the first one (a double redirect) or to the same target (a sibling)
        ctx.add_page("Template:Rb", 10, redirect_to="Template:R" if red[3] == "toR" else "Template:" + names[red[0]])
    ctx.db_conn.commit()

    def clf(w, page):
        t = page.title.removeprefix("Template:")
        if t == "R":
            return set(), bool(red[1])
        if t == "Rb":
            return set(), False
        i = names.index(t)
        used = {names[j] for j in succ[i]}
        if red is not None and red[2] == i:
            used.add("R")
        return used, i in flagged

    if history == "looked_up_before":
        # the pages have been used (looked up) before the analysis, as a processing run that analyses late would do
        for i in range(n):
            ctx.get_page("Template:" + names[i], 10)
        if red is not None:
            ctx.get_page("Template:R", 10)
    signal.signal(signal.SIGALRM, _alarm)
    signal.setitimer(signal.ITIMER_REAL, 2.0)
    try:
        if late:
            ctx.analyze_templates(clf)
            for i in late:
                ctx.add_page("Template:" + names[i], 10, "body%d" % i)
            if red is not None and red[0] in late:
                ctx.add_page("Template:R", 10, redirect_to="Template:" + names[red[0]])
            ctx.db_conn.commit()
        ctx.analyze_templates(clf)
    except Timeout:
        _TIMEOUTS[0] += 1
        return [("analysis_terminates", "no result within 2 s", "returns")]
    finally:
        signal.setitimer(signal.ITIMER_REAL, 0)
    want = reference(n, succ, flagged, red)
    wt = {"Template:" + (names[x] if isinstance(x, int) else x) for x in want}
    # what a lookup reports right after the analysis (no cache clearing by the harness)
    looked = set()
    for t in ["Template:" + names[i] for i in range(n)] + (["Template:R"] if red is not None else []) + \
            (["Template:Rb"] if red is not None and len(red) > 3 and red[3] else []):
        pg = ctx.get_page(t, 10)
        if pg is not None and pg.need_pre_expand:
            looked.add(t)
    type(ctx).get_page.cache_clear()
    got = {p.title for p in ctx.get_all_pages([10]) if p.need_pre_expand}
    out = []
    if looked != got:
        out.append(("lookup_agrees_with_stored_marks", {"lookup_only": sorted(looked - got), "stored_only": sorted(got - looked)}, sorted(got)))
    if got != wt:
        out.append(("marks_exactly_closure", {"over": sorted(got - wt), "under": sorted(wt - got)}, sorted(wt)))
    other = [p.title for p in ctx.get_all_pages([0, 828]) if p.need_pre_expand]
    if other:
        out.append(("other_namespaces_untouched", other, []))
    return out


def replay(case):
    _TIMEOUTS[0] = 0
    ctx = new_ctx()
    try:
        red = case["redirect"]
        res = run_case(ctx, case["n"], [tuple(e) for e in case["edges"]], case["flags"], tuple(red) if red else None,
                       SCHEMES[case["naming"]], case.get("history", "single"))
    finally:
        close_ctx(ctx)
    return [{"oracle": o, "observed": ob, "expected": ex} for o, ob, ex in res]


def graphs_from_masks(n, masks):
    pairs = [(i, j) for i in range(n) for j in range(n)]
    for mask in masks:
        yield [p for k, p in enumerate(pairs) if mask >> k & 1]


def families(n):
    chain = [(i, i + 1) for i in range(n - 1)]
    ring = chain + [(n - 1, 0)]
    star_in = [(i, 0) for i in range(1, n)]
    star_out = [(0, i) for i in range(1, n)]
    diamond = [(0, 1), (0, 2), (1, 3), (2, 3)] + [(3, i) for i in range(4, n)]
    h = n // 2
    two_scc = [(i, (i + 1) % h) for i in range(h)] + [(h + i, h + (i + 1) % (n - h)) for i in range(n - h)] + [(0, h)]
    complete = [(i, j) for i in range(n) for j in range(n) if i != j]
    return {"chain": chain, "ring": ring, "star_in": star_in, "star_out": star_out, "diamond": diamond,
            "two_scc_bridge": two_scc, "complete": complete, "self_loops": [(i, i) for i in range(n)] + chain}


def work(payload, skip, report):
    acc = Acc(PROP)
    kind = payload[0]
    ctx = new_ctx()
    i = 0
    if kind == "all":
        _, n, masks, schemes, with_red = payload
        for edges in graphs_from_masks(n, masks):
            for fl in range(1 << n):
                reds = [None]
                if with_red:
                    reds += [(t, rf, inc) for t in range(n) for rf in (0, 1) for inc in ([None] + list(range(n)))]
                    # a second redirect page next to the first: R' -> R (double redirect) or R' -> t (sibling)
                    reds += [(t, rf, None, sec) for t in range(n) for rf in (0, 1) for sec in ("toR", "toT")]
                for red in reds:
                    for sch in schemes:
                        for hist in (HISTORIES if sch == schemes[0] else HISTORIES[:1]):
                            if red is not None and len(red) > 3 and hist in ("flagged_first", "last_late", "marked_includer_first"):
                                continue   # (two analyses advance the one-pass redirect layer by a second pass: single-analysis histories only)
                            report(i)
                            i += 1
                            case = {"n": n, "edges": edges, "flags": fl, "redirect": red, "naming": sch, "history": hist}
                            res = run_case(ctx, n, edges, fl, red, SCHEMES[sch], hist)
                            acc.case()
                            for o, ob, ex in res:
                                acc.violation(o, case, ob, ex)
            acc.distinct("graphs", [n, edges])
        acc.sample({"n": n, "masks": len(masks), "redirects": with_red})
    else:
        _, n, name, edges = payload
        for fl in range(1 << n):
            for red in [None, (0, 0, None), (n - 1, 1, None), (n // 2, 0, 0)]:
                for hist in HISTORIES:
                    report(i)
                    i += 1
                    case = {"n": n, "family": name, "edges": edges, "flags": fl, "redirect": red, "naming": "plain", "history": hist}
                    res = run_case(ctx, n, edges, fl, red, SCHEMES["plain"], hist)
                    acc.case()
                    for o, ob, ex in res:
                        acc.violation(o, case, ob, ex)
        acc.distinct("graphs", [n, edges])
        acc.sample({"n": n, "family": name})
    close_ctx(ctx)
    return acc


def main(run):
    q = run.tier == "quick"
    chunks = []
    chunks.append(("all", 1, list(range(2)), list(SCHEMES), True))
    chunks.append(("all", 2, list(range(16)), list(SCHEMES), True))
    m3 = list(range(512))
    for k in range(32):
        chunks.append(("all", 3, m3[k::32], list(SCHEMES) if not q else ["plain", "lower", "suffix", "prefix", "case_twins"], True))
    if not q:
        m4 = list(range(1 << 16))
        for k in range(256):
            chunks.append(("all", 4, m4[k::256], ["plain"], False))
    for n in ((5, 6) if q else (5, 6, 7, 8)):
        for name, edges in families(n).items():
            chunks.append(("fam", n, name, edges))
    done = 0
    for cid, acc, hung in run_chunks(work, chunks, nproc=run.nproc, case_timeout=30):
        run.acc.merge(acc)
        done += 1
        if done % 100 == 0:
            run.log("chunks", done, "/", len(chunks), "cases", run.acc.n)
    cov = {
        "distinct_nontrivial": len(run.acc.sets.get("graphs", ())),
        "rule": "every inclusion digraph (self-inclusion allowed) on 1..3 templates x every classifier flag set x every redirect placement "
                "(none, or a redirect page R -> t for each t, flagged or not, optionally itself included by a template) x %d naming schemes"
                "%s; 8 families (chain, ring, stars, diamond, two SCCs with a bridge, complete, self-loops) on %s templates x all flag "
                "sets x 4 redirect placements; every case under %d histories that reach the same page set (one analysis; flagged templates "
                "stored with the flag set; flagged templates analysed first, the others arriving before a second analysis; the last "
                "template arriving late; flagged templates and their direct includers first; every template looked up before the analysis), the marks also read back through get_page() right after the analysis. distinct = distinct graphs."
                % (2 if q else 4, "" if q else "; all 65536 digraphs on 4 templates x all 16 flag sets", "5-6" if q else "5-8", len(HISTORIES)),
        "exhaustive": True,
    }
    assumptions = [
        "sequential reading of the redirect clause: fixpoint over inclusions first, then one step of redirect source<-target and target<-source marking",
        "the classifier returns used template names exactly as stored (without namespace prefix)",
        "in a multi-analysis history 'marked' includes marks left by the earlier analysis (also marks it set through a redirect)",
    ]
    return run.finish(cov, assumptions, replay_fn=replay)
