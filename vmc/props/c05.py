"""C05  expand() terminates and reports failures in-band for every page and template set.

Bounded exhaustive exploration: (a) every template call graph on <= 3 templates
(self-loops allowed) x 4 edge realisations x every start template, ring/chain
families on more templates, call chains and literal nesting towers to depth 120;
(b) every parser function x every argument vector up to a length bound over a
12-atom alphabet x 4 page titles, in both call forms; (c) every #expr token
string up to a length bound over the full operator alphabet.  Each case runs
under a watchdog and an address-space limit.
"""
from __future__ import annotations

import itertools
import signal

from ..fixtures import close_ctx, new_ctx
from ..pool import run_chunks
from ..ref_expand import ev
from ..runner import Acc

PROP = "C05"
LEVEL = "exploration"

REAL = ["direct", "arg", "default", "if", "argname", "argkey", "colon"]   # colon: pages of the main namespace transcluded as {{:P}}
ATOMS = ["", "x", "0", "1", "-1", "1.5", "1e9", "12345678901234567890", "Talk:x", "a/b/c", "{{e}}", "=", "²", "{{e|²=1}}",
         # argument names that look numeric but cannot be converted: non-ASCII digit, more digits than int() accepts
         "{{pu|x}}", "{{#invoke}}", "{{#invoke:}}", "{{#invoke:m}}", "²=1", "9" * 5000 + "=1", "{{e|" + "9" * 5000 + "=1}}", "{{{" + "1" * 5000 + "|}}}"]
# a template body that contains a raw private-use character from the range of the internal placeholders
PU_BODY = "a\U00103000b{{{1}}}"
ALIASES = {"#ausdruck": "#expr", "#wenn": "#if", "kleinb": "lc", "#laenge": "#len", "auffuellen": "padleft", "seitenname": "PAGENAME"}
TITLES = ["Tt", "Talk:x", "Special:x", "Media:x"]
SKIP_FNS = {"#property", "#statements", "#invoke"}   # network / other properties
SLOW_FNS = {"#time", "#timel", "#dateformat", "#formatdate"}  # dateparser: seconds per junk input
EXPR = ["0", "1", "2", "3", "0.5", "10", "1000", "99999999999999999999", ".", "e", "pi", "+", "-", "*", "/", "^", "(", ")",
        "div", "mod", "round", "=", "!=", "<>", "<", ">", "<=", ">=", "and", "or", "not", "ceil", "trunc", "floor", "abs",
        "sqrt", "exp", "ln", "sin", "cos", "tan", "acos", "asin", "atan", "x", "#"]
EXPR_Q = ["0", "1", "2", "0.5", "1000", "99999999999999999999", "-99999999999999999999", "e", "+", "-", "*", "/", "^", "(", ")", "mod", "round",
          "=", "<", "and", "or", "not", "ceil", "trunc", "sqrt", "exp", "ln", "acos", "x"]
ERR = 'class="error"'
GRAPH_LIMIT = 1.0


class Timeout(BaseException):
    pass


def _alarm(*a):
    raise Timeout()


class time_limit:
    """In-process limit for pure-Python loops (the pool watchdog remains the backstop for C-level hangs)."""

    def __init__(self, secs):
        self.secs = secs

    def __enter__(self):
        signal.signal(signal.SIGALRM, _alarm)
        signal.setitimer(signal.ITIMER_REAL, self.secs)

    def __exit__(self, *a):
        signal.setitimer(signal.ITIMER_REAL, 0)
        return False


def branching_cycle(n, edges, start):
    """True iff a template reachable from start lies on a cycle and calls >= 2 templates that can reach it back
    (the expansion then explores exponentially many non-repeating walks before the depth limit)."""
    adj = {i: sorted(set(j for (a, j) in edges if a == i)) for i in range(n)}

    def reach(v):
        seen, st = set(), [v]
        while st:
            x = st.pop()
            for w in adj[x]:
                if w not in seen:
                    seen.add(w)
                    st.append(w)
        return seen

    r = {v: reach(v) for v in range(n)}
    nodes = {start} | r[start]
    for v in nodes:
        if v in r[v]:
            back = [w for w in adj[v] if v in r[w] or w == v]
            if len(back) >= 2:
                return True
    return False


def edge_text(real, j):
    call = "{{t%d}}" % j
    if real == "direct":
        return call
    if real == "arg":
        return "{{e|" + call + "}}"
    if real == "default":
        return "{{{zz|" + call + "}}}"
    if real == "argname":
        return "{{{ " + call + " }}}"          # the call sits in the name of a parameter reference
    if real == "argkey":
        return "{{e|" + call + "=1}}"          # the call sits in the key of a named argument
    if real == "colon":
        return "{{:P%d}}" % j
    return "{{#if:1|" + call + "}}"


def edge_ast(real, j):
    call = ("C", "t%d" % j, [])
    if real == "direct":
        return call
    if real == "arg":
        return ("C", "e", [(None, call)])
    if real == "default":
        return ("P", "zz", call)
    if real in ("argname", "argkey"):
        return None                            # no reference output for these realisations (only totality / loop reporting)
    if real == "colon":
        return call
    return ("IF", ("T", "1"), call, ("T", ""))


def reach_cycle(n, edges, start):
    adj = {i: [j for (a, j) in edges if a == i] for i in range(n)}
    seen, stack = set(), [start]
    while stack:
        v = stack.pop()
        if v in seen:
            continue
        seen.add(v)
        stack.extend(adj[v])
    # cycle within reachable set?
    color = {}

    def dfs(v):
        color[v] = 1
        for w in adj[v]:
            if color.get(w) == 1:
                return True
            if w not in color and dfs(w):
                return True
        color[v] = 2
        return False

    return dfs(start)


def run_graph(ctx, n, edges, real, start, title="Tt"):
    """Installs the library, expands {{t<start>}}, returns list of (oracle, obs, exp)."""
    lib = {"e": (("P", "1", None), "none")}
    ctx.add_page("Template:e", 10, "{{{1}}}")
    for i in range(n):
        outs = [j for (a, j) in edges if a == i]
        body = "T%d" % i + "".join(edge_text(real, j) for j in outs)
        ctx.add_page("Template:t%d" % i, 10, body)
        if real == "colon":
            ctx.add_page("P%d" % i, 0, body)
        lib["t%d" % i] = (("SEQ", [("T", "T%d" % i)] + [edge_ast(real, j) for j in outs if edge_ast(real, j) is not None]), "none")
    ctx.start_page(title)
    out = []
    try:
        with time_limit(GRAPH_LIMIT):
            got = ctx.expand(("{{:P%d}}" if real == "colon" else "{{t%d}}") % start)
    except Timeout:
        return [("returns_in_bounded_time", "no result within %.0f s" % GRAPH_LIMIT, "returns")]
    except RecursionError:
        return [("no_exception", "RecursionError", "returns a string")]
    except Exception as e:
        return [("no_exception", type(e).__name__ + ": " + str(e)[:100], "returns a string")]
    if not isinstance(got, str):
        return [("returns_str", type(got).__name__, "str")]
    msgs = [m["msg"] for m in ctx.errors + ctx.warnings]
    loopmsg = [m for m in msgs if "loop" in m.lower() or "too deep" in m.lower()]
    cyc = reach_cycle(n, edges, start)
    if real == "argkey":
        # the key's expansion is not part of the output: only totality and (for cycles) a recorded message are required
        if cyc and not loopmsg:
            out.append(("cycle_records_message", msgs[:3], "a loop / depth warning or error"))
        return out
    if real == "argname" and not cyc:
        return out
    if cyc:
        if ERR not in got:
            out.append(("cycle_yields_error_element", got[:200], "an element with " + ERR))
        if not loopmsg:
            out.append(("cycle_records_message", msgs[:3], "a loop / depth warning or error"))
    else:
        want = ev(("C", "t%d" % start, []), None, lib)
        if ERR in got or loopmsg:
            if len(ctx.expand_stack) and not loopmsg:
                out.append(("acyclic_no_error_element", got[:200], want[:200]))
            elif n <= 5:
                out.append(("acyclic_no_error_element", {"out": got[:200], "msgs": loopmsg[:2]}, want[:200]))
        elif got != want:
            out.append(("acyclic_equals_reference", got[:300], want[:300]))
    return out


def redirect_sets(n):
    """Every template set on n pages R0..R(n-1) in which each page is a body page or a redirect to one of the pages
    (itself included), to a missing page, or to its own title with a lower-case first letter (which is not stored)."""
    kinds = ["body"] + ["to:%d" % k for k in range(n)] + ["to:missing", "to:lowerself"]
    return list(itertools.product(kinds, repeat=n))


def run_redirects(ctx, n, kinds, start, via):
    for i, kd in enumerate(kinds):
        title = "Template:R%d" % i
        if kd == "body":
            ctx.add_page(title, 10, "B%d[{{{1|}}}]" % i)
        elif kd == "to:missing":
            ctx.add_page(title, 10, None, redirect_to="Template:Nowhere")
        elif kd == "to:lowerself":
            ctx.add_page(title, 10, None, redirect_to="Template:r%d" % i)
        else:
            ctx.add_page(title, 10, None, redirect_to="Template:R" + kd[3:])
    for i in range(n, 4):     # pages of an earlier, larger set
        ctx.add_page("Template:R%d" % i, 10, "stale")
    ctx.add_page("Template:viaT", 10, "<{{R%d|{{{1|}}}}}>" % start)
    ctx.start_page("Tt")
    text = {"direct": "{{R%d|x}}" % start, "if": "{{#if:1|{{R%d|x}}}}" % start, "body": "{{viaT|x}}"}[via]
    try:
        with time_limit(GRAPH_LIMIT):
            got = ctx.expand(text)
    except Timeout:
        return [("returns_in_bounded_time", "no result within %.0f s" % GRAPH_LIMIT, "returns")]
    except RecursionError:
        return [("no_exception", "RecursionError", "returns a string")]
    except Exception as e:
        return [("no_exception", type(e).__name__ + ": " + str(e)[:100], "returns a string")]
    if not isinstance(got, str):
        return [("returns_str", type(got).__name__, "str")]
    out = []
    # what the call must give when the answer is unambiguous: a body page, or one hop to a body page
    kd = kinds[start]
    target = start if kd == "body" else int(kd[3:]) if kd[3:].isdigit() and kinds[int(kd[3:])] == "body" else None
    if target is not None:
        want = "B%d[x]" % target
        want = {"direct": want, "if": want, "body": "<" + want + ">"}[via]
        if got != want:
            out.append(("redirect_to_body_page_expands_it", got[:200], want))
    if len(ctx.expand_stack) != 1:
        out.append(("path_restored", list(ctx.expand_stack), ["Tt"]))
    return out


def placeholder_texts():
    from wikitextprocessor.common import MAGIC_FIRST
    forms = ["[[a|%s]]", "{{{a|%s}}}", "{{a|%s}}", "{{#if:1|%s}}", "[http://x.y %s]", "<nowiki>%s</nowiki>", "{{a|k=%s}}", "x%sy"]
    out = []
    for f in forms:
        for k in (0, 1, 2):
            out.append(f % chr(MAGIC_FIRST + k))
    for f, g in itertools.product(forms[:4], repeat=2):
        out.append(f % chr(MAGIC_FIRST + 1) + " " + g % "b")
        out.append(f % "b" + " " + g % chr(MAGIC_FIRST))
    # a lone surrogate (a str may hold one, e.g. from a file read with surrogateescape) in every name / argument position
    for f in ["{{%s}}", "{{:%s}}", "{{a|%s}}", "{{a|%s=1}}", "[[%s]]", "{{#ifexist:%s|y|n}}", "{{PAGENAME:%s}}", "{{{%s|d}}}", "{{%s:x}}",
              "{{Template:%s}}", "{{a%sb|x}}"]:    # (#invoke with such a name: C07's python_unicode follow-up, on a context with Lua)
        out.append(f % "\ud800")
    return out


def digraphs(n):
    pairs = [(i, j) for i in range(n) for j in range(n)]
    for mask in range(1 << len(pairs)):
        yield [p for k, p in enumerate(pairs) if mask >> k & 1]


def families():
    out = []
    for n in (4, 5):
        ring = [(i, (i + 1) % n) for i in range(n)]
        chain = [(i, i + 1) for i in range(n - 1)]
        out.append((n, ring))
        out.append((n, chain))
        out.append((n, chain[:-1] + [(n - 2, 1)] + [(n - 2, n - 1)]))     # ring with tail
        out.append((n, [(0, 1), (1, 0), (0, 2), (2, 3), (3, 2)]))          # two rings
        out.append((n, chain + [(n - 1, n - 1)]))                           # chain into self-loop
    return out


def work(payload, skip, report):
    import time as _time
    _t0 = _time.time()
    acc = Acc(PROP)
    kind = payload[0]
    ctx = new_ctx()
    ctx.add_page("Template:e", 10, "")
    ctx.add_page("Template:pu", 10, PU_BODY)
    if kind == "graphs":
        _, n, graphs = payload
        i = 0
        for edges in graphs:
            for real in REAL:
                for start in range(n if n <= 3 else 1):
                    case = {"templates": n, "edges": edges, "realisation": real, "start": start,
                            "branching_cycle": branching_cycle(n, edges, start)}
                    if i in skip:
                        acc.violation("returns_in_time", case, "hang", "returns")
                        i += 1
                        continue
                    report(i)
                    i += 1
                    res = run_graph(ctx, n, edges, real, start)
                    acc.case()
                    acc.distinct("cases", case)
                    for o, ob, ex in res:
                        acc.violation(o, case, ob, ex)
                    if n <= 2:
                        # the same on the page of the start template itself: the page title is not an open template frame
                        case2 = dict(case, page_title="Template:t%d" % start)
                        res = run_graph(ctx, n, edges, real, start, "Template:t%d" % start)
                        acc.case()
                        for o, ob, ex in res:
                            acc.violation(o + ":on_the_template's_own_page", case2, ob, ex)
        acc.sample({"templates": n, "graphs": len(graphs)})
    elif kind == "redirects":
        _, n, sets = payload
        i = 0
        for kinds in sets:
            for start in range(n):
                for via in ("direct", "if", "body"):
                    case = {"redirect_set": list(kinds), "start": start, "via": via}
                    if i in skip:
                        acc.violation("returns_in_time", case, "hang", "returns")
                        i += 1
                        continue
                    report(i)
                    i += 1
                    res = run_redirects(ctx, n, kinds, start, via)
                    acc.case()
                    acc.distinct("cases", case)
                    for o, ob, ex in res:
                        acc.violation(o, case, ob, ex)
        acc.sample({"redirect_sets": len(sets), "pages": n})
    elif kind == "towers":
        _, depths = payload
        i = 0
        for d in depths:
            for shape in ("chain", "literal", "literal_pf", "default_tower", "pf_test", "ifeq_left", "switch_subject", "expr_arg",
                          "lc_arg", "named_value", "second_positional", "ifexpr_test", "arg_key"):
                case = {"tower": shape, "depth": d}
                if i in skip:
                    acc.violation("returns_in_time", case, "hang", "returns")
                    i += 1
                    continue
                report(i)
                i += 1
                if shape == "chain":
                    for k in range(d):
                        ctx.add_page("Template:c%d" % k, 10, "c" + ("{{c%d}}" % (k + 1) if k + 1 < d else "."))
                    text, want = "{{c0}}", "c" * d + "."
                elif shape == "literal":
                    ctx.add_page("Template:a", 10, "[{{{1|}}}]")
                    text, want = "{{a|" * d + "x" + "}}" * d, "[" * d + "x" + "]" * d
                elif shape == "literal_pf":
                    text, want = "{{#if:1|" * d + "x" + "}}" * d, "x"
                # nesting in the other argument positions (the construct's first / test argument, a named value, ...)
                elif shape == "pf_test":
                    text, want = "{{#if:" * d + "x" + "|y|n}}" * d, "y"
                elif shape == "ifeq_left":
                    text, want = "{{#ifeq:" * d + "x" + "|x|x|n}}" * d, "x"
                elif shape == "switch_subject":
                    text, want = "{{#switch:" * d + "x" + "|x=x|n}}" * d, "x"
                elif shape == "expr_arg":
                    text, want = "{{#expr:1+" * d + "1" + "}}" * d, str(d + 1)
                elif shape == "ifexpr_test":
                    text, want = "{{#ifexpr:" * d + "1" + "|1|0}}" * d, "1"
                elif shape == "lc_arg":
                    text, want = "{{lc:" * d + "X" + "}}" * d, "x"
                elif shape == "named_value":
                    ctx.add_page("Template:a", 10, "[{{{1|}}}]")
                    text, want = "{{a|1=" * d + "x" + "}}" * d, "[" * d + "x" + "]" * d
                elif shape == "arg_key":
                    # the same template nested in the KEY of its own named argument: acyclic (keys belong to the caller's frame)
                    ctx.add_page("Template:nk", 10, "k")
                    text, want = "{{nk|" * d + "z" + "=v}}" * d, "k"
                elif shape == "second_positional":
                    ctx.add_page("Template:b", 10, "[{{{2|}}}]")
                    text, want = "{{b|z|" * d + "x" + "}}" * d, "[" * d + "x" + "]" * d
                else:
                    text, want = "{{{p|" * d + "x" + "}}}" * d, "x"
                ctx.start_page("Tt")
                acc.case()
                acc.distinct("cases", case)
                try:
                    got = ctx.expand(text)
                except BaseException as e:
                    acc.violation("no_exception", case, type(e).__name__, "returns a string")
                    continue
                msgs = [m["msg"] for m in ctx.errors + ctx.warnings]
                if any("loop" in m.lower() for m in msgs) and not any("too deep" in m for m in msgs):
                    acc.violation("acyclic_tower_no_loop_message", case, msgs[:2], "no template loop is reported for nesting without a cycle")
                if ERR in got:
                    if not any("too deep" in m or "loop" in m.lower() for m in msgs):
                        acc.violation("depth_records_message", case, msgs[:2], "an error/warning recorded")
                elif any("too deep" in m for m in msgs):
                    pass   # the depth limit was reported; an enclosing conditional has consumed the error element as plain text
                elif got != want:
                    acc.violation("tower_equals_reference", case, got[:200], want[:200])
        acc.sample({"towers": depths[:3]})
    elif kind == "fns":
        _, fns, _tier = payload
        i = 0
        for fn in fns:
            slow = fn in SLOW_FNS
            vecs = [()] + [(a,) for a in (ATOMS if not (slow and _tier == "quick") else ATOMS[:4])]
            if not slow:
                vecs += list(itertools.product(ATOMS, repeat=2))
            if payload[-1] == "thorough" and not slow:
                vecs += list(itertools.product(ATOMS[:8], repeat=3))
            for vec in vecs:
                titles = TITLES if len(vec) <= 1 else TITLES[:1]
                forms = ["{{" + fn + (":" + "|".join(vec) if vec else "") + "}}"]
                if vec:
                    forms.append("{{" + fn + "|" + "|".join(vec) + "}}")
                for title in titles:
                    for text in forms:
                        case = {"input": text, "title": title}
                        if i in skip:
                            acc.violation("returns_in_time:" + fn, case, "hang or memory exhaustion (killed by watchdog)", "returns")
                            i += 1
                            continue
                        report(i)
                        i += 1
                        ctx.start_page(title)
                        acc.case()
                        try:
                            got = ctx.expand(text)
                            if not isinstance(got, str):
                                acc.violation("returns_str", case, type(got).__name__, "str")
                            acc.distinct("cases", got)
                        except MemoryError:
                            acc.violation("parserfn_total:" + fn + ":MemoryError", case, "MemoryError", "in-band error")
                        except Exception as e:
                            acc.violation("parserfn_total:" + fn + ":" + type(e).__name__, case,
                                          type(e).__name__ + ": " + str(e)[:100], "in-band error string or fallback")
            acc.sample({"function": fn, "vectors": len(vecs)})
    elif kind == "alias":
        # the same functions reached through parser_function_aliases (a context option)
        close_ctx(ctx)
        ctx = new_ctx(parser_function_aliases=dict(ALIASES))
        ctx.add_page("Template:e", 10, "")
        ctx.add_page("Template:pu", 10, PU_BODY)
        i = 0
        for alias, target in ALIASES.items():
            if target == "#expr":
                vecs = [(" ".join(t),) for n in (1, 2, 3) for t in itertools.product(EXPR_Q[:16], repeat=n) if n < 3 or t[1] in ("/", "e", "^", "round")]
            else:
                vecs = [()] + [(a,) for a in ATOMS] + list(itertools.product(ATOMS[:8], repeat=2))
            for vec in vecs:
                text = "{{" + alias + (":" + "|".join(vec) if vec else "") + "}}"
                for page in (text, "x " + text + " {{e|" + text + "}} " + text):
                    case = {"input": page, "aliases": ALIASES}
                    if i in skip:
                        acc.violation("returns_in_time:alias", case, "hang", "returns")
                        i += 1
                        continue
                    report(i)
                    i += 1
                    ctx.start_page("Tt")
                    acc.case()
                    try:
                        with time_limit(5.0):
                            got = ctx.expand(page)
                        acc.distinct("cases", got)
                        if list(ctx.expand_stack) != ["Tt"]:
                            acc.violation("alias_call_total", case, {"expand_stack": list(ctx.expand_stack)[:6]}, ["Tt"])
                    except Timeout:
                        acc.violation("returns_in_time:alias", case, "no result within 5 s", "returns")
                    except Exception as e:
                        acc.violation("alias_call_total", case, type(e).__name__ + ": " + str(e)[:100], "in-band error string")
        acc.sample({"aliases": ALIASES})
    elif kind == "expr":
        _, alpha, prefix, length = payload
        alphabet = EXPR if alpha == "T" else EXPR_Q
        i = 0
        ntimeouts = 0
        for rest in itertools.product(alphabet, repeat=length - len(prefix)):
            text = "{{#expr:" + " ".join(prefix + rest) + "}}"
            case = {"input": text}
            if i in skip:
                acc.violation("returns_in_time:#expr", case, "hang or memory exhaustion (killed by watchdog)", "returns")
                i += 1
                continue
            report(i)
            i += 1
            if ntimeouts >= 3:
                continue   # the chunk already produced three hangs; the rest is not executed
            ctx.start_page("Tt")
            acc.case()
            try:
                with time_limit(5.0):
                    got = ctx.expand(text)
                acc.distinct("cases", got)
            except Timeout:
                ntimeouts += 1
                acc.violation("returns_in_time:#expr", case, "no result within 5 s", "returns")
            except Exception as e:
                acc.violation("expr_total:" + type(e).__name__, case, type(e).__name__ + ": " + str(e)[:100],
                              "number or in-band error string")
            if i % 20011 == 0:
                acc.sample(case)
    elif kind == "opts":
        # the expansion switches: with parser functions / #invoke switched off (calls are re-emitted) and under a selection,
        # repeated and recursive calls still come back as a string - in one call and in a second call on the same page
        ctx.add_page("Template:oi", 10, "<{{#invoke:nomod|f|{{{1|}}}}}>")
        ctx.add_page("Template:oself", 10, "{{#invoke:nomod|f}}{{oself}}")
        ctx.add_page("Template:opf", 10, "{{#if:{{{1|}}}|{{opf}}|{{#expr:1/0}}}}")
        texts = ["{{#invoke:nomod|f}} {{#invoke:nomod|g|x}}", "{{oi|a}}{{oi|b}}", "{{oself}}", "{{opf|1}} {{opf}}", "{{#if:1|{{#invoke:nomod|f}}}}{{#invoke:nomod|f}}",
                 "{{#expr:1+}} {{#expr:2+}}", "{{oi|{{oi|{{#invoke:nomod|f}}}}}}"]
        i = 0
        for text in texts:
            for inv, pf, pre in itertools.product((False,), (True, False), (False, True)):     # (executing #invoke is C07's / C16's ground)
                case = {"input": text, "expand_invoke": inv, "expand_parserfns": pf, "pre_expand": pre}
                report(i)
                i += 1
                ctx.start_page("Tt")
                acc.case()
                for rep in (1, 2):
                    try:
                        with time_limit(5.0):
                            got = ctx.expand(text, expand_invoke=inv, expand_parserfns=pf, pre_expand=pre,
                                             templates_to_expand={"oi", "oself", "opf"} if pre else None)
                        if not isinstance(got, str):
                            acc.violation("returns_str", case, type(got).__name__, "str")
                    except Timeout:
                        acc.violation("returns_in_bounded_time", dict(case, call=rep), "no result within 5 s", "returns")
                        break
                    except RecursionError:
                        acc.violation("no_exception", dict(case, call=rep), "RecursionError", "returns a string")
                        break
                    except Exception as e:
                        acc.violation("no_exception", dict(case, call=rep), type(e).__name__ + ": " + str(e)[:80], "returns a string")
                        break
        acc.sample({"input": texts[0], "expand_invoke": False})
    elif kind == "ph":
        # page text that contains the package's own placeholder code points (private-use characters): each text runs in a
        # chunk of its own, so a hang is one watchdog kill
        _, text = payload
        case = {"input": text}
        acc.case()
        if 0 in skip:
            acc.violation("placeholder_input_returns", case, "no result within the watchdog (20 s)", "returns")
        else:
            report(0)
            ctx.add_page("Template:a", 10, "A{{{1|}}}")
            ctx.start_page("Tt")
            try:
                with time_limit(5.0):
                    got = ctx.expand(text)
                acc.distinct("cases", got[:50])
                if not isinstance(got, str):
                    acc.violation("returns_str", case, type(got).__name__, "str")
            except Timeout:
                acc.violation("placeholder_input_returns", case, "no result within 5 s", "returns")
            except RecursionError:
                acc.violation("placeholder_input_returns", case, "RecursionError", "returns a string")
            except Exception as e:
                acc.violation("placeholder_input_returns", case, type(e).__name__ + ": " + str(e)[:80], "returns a string")
    elif kind == "big":
        _, text = payload
        case = {"input": text if len(text) < 200 else text[:80] + "...(%d chars)" % len(text)}
        acc.case()
        if 0 in skip:
            acc.violation("bounded_time", case, "no result within the watchdog (20 s)", "returns")
        else:
            report(0)
            ctx.start_page("Tt")
            try:
                got = ctx.expand(text)
                acc.distinct("cases", got[:50])
            except MemoryError:
                acc.violation("bounded_time", case, "MemoryError", "returns")
            except Exception as e:
                acc.violation("no_exception", case, type(e).__name__, "returns")
    close_ctx(ctx)
    acc.count("cpu_s_" + kind, int(_time.time() - _t0))
    if _time.time() - _t0 > 15:
        acc.count("slow_chunk:" + str(payload[:3])[:80], int(_time.time() - _t0))
    return acc


def replay(case):
    if "input" not in case:
        return None
    ctx = new_ctx(parser_function_aliases=dict(case["aliases"])) if "aliases" in case else new_ctx()
    ctx.add_page("Template:e", 10, "")
    ctx.add_page("Template:pu", 10, PU_BODY)
    out = []
    try:
        ctx.start_page(case.get("title", "Tt"))
        try:
            with time_limit(10.0):
                r = ctx.expand(case["input"])
            if not isinstance(r, str):
                out.append({"oracle": "returns_str", "observed": type(r).__name__, "expected": "str"})
        except Timeout:
            out.append({"oracle": "returns_in_time", "observed": "no result within 10 s", "expected": "returns"})
        except Exception as e:
            out.append({"oracle": "total", "observed": type(e).__name__ + ": " + str(e)[:100], "expected": "in-band"})
    finally:
        close_ctx(ctx)
    return out


def main(run):
    from wikitextprocessor.parserfns import PARSER_FUNCTIONS

    q = run.tier == "quick"
    chunks = []
    for n in (1, 2):
        chunks.append(("graphs", n, list(digraphs(n))))
    g3 = list(digraphs(3))
    for k in range(64):
        chunks.append(("graphs", 3, g3[k::64]))
    for n, edges in families():
        chunks.append(("graphs", n, [edges]))
    for n in ((1, 2, 3) if q else (1, 2, 3, 4)):
        rs = redirect_sets(n)
        parts = 1 if n < 3 else 8 if n == 3 else 32
        for k in range(parts):
            chunks.append(("redirects", n, rs[k::parts]))
    depths = list(range(1, 121)) if not q else list(range(1, 121, 7)) + [98, 99, 100, 101, 120]
    for k in range(8):
        if depths[k::8]:
            chunks.append(("towers", depths[k::8]))
    fns = sorted(k for k in PARSER_FUNCTIONS if k not in SKIP_FNS)
    for fn in fns:
        chunks.append(("fns", [fn], run.tier))
    chunks.append(("alias",))
    chunks.append(("expr", "Q" if q else "T", (), 1))
    chunks.append(("expr", "Q" if q else "T", (), 2))
    for t in (EXPR_Q if q else EXPR):
        chunks.append(("expr", "Q" if q else "T", (t,), 3))
    if not q:
        for t1 in EXPR_Q:
            for t2 in EXPR_Q:
                chunks.append(("expr", "Q", (t1, t2), 4))
    bigs = ["{{padleft:x|99999999999}}", "{{padright:x|99999999999|ab}}", "{{#expr:1 e 99999999999}}", "{{#expr:10^10^10}}",
            "{{#expr:9^9^9^9}}", "{{#tag:ref|" + "x" * 100000 + "}}", "{{uc:" + "ab" * 200000 + "}}"]
    if not q:
        bigs.append("[[" + "a" * 1500 + "|" + "b" * 1500)
    for b in bigs:
        chunks.append(("big", b))
    for t in placeholder_texts():
        chunks.append(("ph", t))
    chunks.append(("opts",))
    done = 0
    for cid, acc, hung in run_chunks(work, chunks, nproc=run.nproc, case_timeout=20, mem_limit=4 << 30):
        run.acc.merge(acc)
        done += 1
        if done % 400 == 0:
            run.log("chunks", done, "/", len(chunks), "cases", run.acc.n)
    cov = {
        "distinct_nontrivial": len(run.acc.sets.get("cases", ())),
        "parser_functions": len(fns),
        "rule": "(a) all digraphs with self-loops on 1..3 templates (2+16+512) x 4 edge realisations (direct call, inside an argument, "
                "inside a parameter default, inside an #if branch) x every start template, 10 ring/chain/two-ring families on 4-5 "
                "templates, chains / literal nesting / #if nesting / default nesting to depth 120; every set of 1..%d template pages each of which "
                "is a body page or a redirect (to any page of the set incl. itself, to a missing page, to its own lower-case spelling) x "
                "every start page x call position (direct, #if branch, another template's body); (b) every one of %d parser functions "
                "(network-backed #property/#statements and #invoke excluded) x every argument vector of length <= %d over 12 atoms "
                "(4 page titles for length <= 1) in both call forms; (c) every #expr token string of length <= %d over %d symbols "
                "(all operators and function words); (d) resource-exhaustion probes; (e) %d texts with the package's own placeholder code points inside every construct. Every case under a 20 s watchdog and a 4 GiB "
                "address-space limit. distinct = distinct outputs / graph cases."
                % (3 if q else 4, len(fns), 2 if q else 3, 3 if q else 4, len(EXPR_Q if q else EXPR), len(placeholder_texts())),
        "exhaustive": True,
    }
    assumptions = [
        "a reachable cycle must produce an error element because every edge realisation puts the callee's result into the output",
        "the date functions (dateparser, seconds per junk input) get vectors of length <= 1 only",
    ]
    return run.finish(cov, assumptions, replay_fn=None)
