"""C18  Parser functions compute their documented values.

Bounded exhaustive exploration against independent reference definitions:
#expr ASTs up to a depth bound over every operator rendered minimally
parenthesised, fully parenthesised and with spacing/case variation; full
argument grids for the string functions; plural; formatnum|R round trip for
every shipped locale x numeral shapes.
"""
from __future__ import annotations

import itertools
import math
import os
import re
import urllib.parse

from ..fixtures import close_ctx, new_ctx
from ..pool import run_chunks
from ..runner import Acc

PROP = "C18"
LEVEL = "exploration"

# ---------------------------------------------------------------- #expr reference
BIN = {"e": 9, "^": 7, "*": 6, "/": 6, "div": 6, "mod": 6, "fmod": 6, "+": 5, "-": 5, "round": 4, "=": 3, "!=": 3, "<>": 3, "<": 3,
       ">": 3, "<=": 3, ">=": 3, "and": 2, "or": 1}
UN_SIGN = {"-": 9, "+": 9}
UN_FN = {k: 8 for k in ("not", "ceil", "trunc", "floor", "abs", "sqrt", "exp", "ln", "sin", "cos", "tan", "acos", "asin", "atan")}
ATOMS = ["2", "3", "0.5"]


def fold(e):
    if e[0] == "n":
        return float(e[1]) if "." in e[1] else int(e[1])
    if e[0] == "u":
        x, op = fold(e[2]), e[1]
        if op == "-":
            return -x
        if op == "+":
            return x
        if op == "not":
            return int(not x)
        if op in ("ceil", "trunc", "floor"):
            return getattr(math, op)(x)
        if op == "abs":
            return abs(x)
        return getattr(math, {"ln": "log"}.get(op, op))(x)
    a, b, op = fold(e[2]), fold(e[3]), e[1]
    if op == "e":
        if abs(b) > 300:
            raise OverflowError("exponent beyond double range: ill-defined")
        return a * 10 ** b if isinstance(b, int) and b >= 0 and isinstance(a, int) else a * math.pow(10, b)
    if op == "^":
        return math.pow(a, b)
    if op == "*":
        return a * b
    if op in ("/", "div"):
        return a / b
    if op == "mod":
        # Help:Extension:ParserFunctions: "remainder of division after truncating both operands to an integer"; the result has
        # the sign of the dividend (-8 mod 3 = -2, 8 mod 2.7 = 0, 8.9 mod 3 = 2)
        ta, tb = math.trunc(a), math.trunc(b)
        if tb == 0:
            raise ZeroDivisionError("mod by a value that truncates to zero")
        return int(math.fmod(ta, tb))
    if op == "fmod":
        return math.fmod(a, b)      # floating-point remainder, sign of the dividend (documented multiplicative operator)
    if op == "+":
        return a + b
    if op == "-":
        return a - b
    if op == "round":
        # "rounds off the number on the left to a multiple of 1/10 raised to a power, with the exponent equal to the truncated
        # value of the number given on the right"; halves go away from zero (2.5 round 0 = 3, -2.5 round 0 = -3, 1250 round -2 = 1300)
        import decimal
        d = math.trunc(b)
        q = decimal.Decimal(repr(a)).quantize(decimal.Decimal(1).scaleb(-d), rounding=decimal.ROUND_HALF_UP)
        return int(q) if d <= 0 or isinstance(a, int) else float(q)
    if op == "=":
        return int(a == b)
    if op in ("!=", "<>"):
        return int(a != b)
    if op == "<":
        return int(a < b)
    if op == ">":
        return int(a > b)
    if op == "<=":
        return int(a <= b)
    if op == ">=":
        return int(a >= b)
    if op == "and":
        return 1 if a and b else 0
    return 1 if a or b else 0


def prec(e):
    if e[0] == "n":
        return 100
    if e[0] == "u":
        return UN_SIGN.get(e[1]) or UN_FN[e[1]]
    return BIN[e[1]]


def rmin(e):
    if e[0] == "n":
        return e[1]
    if e[0] == "u":
        s = rmin(e[2])
        if prec(e[2]) < prec(e):
            s = "(" + s + ")"
        return e[1] + " " + s
    p = BIN[e[1]]
    l, r = rmin(e[2]), rmin(e[3])
    if prec(e[2]) < p:
        l = "(" + l + ")"
    if prec(e[3]) <= p:
        r = "(" + r + ")"
    return l + " " + e[1] + " " + r


def rfull(e):
    if e[0] == "n":
        return e[1]
    if e[0] == "u":
        return "(" + e[1] + " " + rfull(e[2]) + ")"
    return "(" + rfull(e[2]) + " " + e[1] + " " + rfull(e[3]) + ")"


def rvar(e):
    """Spacing and letter-case variation of the minimal rendering."""
    s = rmin(e)
    toks = s.split(" ")
    out = []
    for i, t in enumerate(toks):
        out.append(t.upper() if t.isalpha() and i % 2 == 0 else t.capitalize() if t.isalpha() else t)
    return "  ".join(out).replace("( ", "(").replace("(", " ( ")


def fmt(v):
    if isinstance(v, float) and v == math.floor(v):
        return str(int(v))
    return str(v)


def gen(depth, ops_un, ops_bin):
    if depth == 0:
        for a in ATOMS:
            yield ("n", a)
        return
    yield from gen(depth - 1, ops_un, ops_bin)
    for op in ops_un:
        for x in gen(depth - 1, ops_un, ops_bin):
            yield ("u", op, x)
    for op in ops_bin:
        for x in gen(depth - 1, ops_un, ops_bin):
            for y in gen(depth - 1, ops_un, ops_bin):
                yield ("b", op, x, y)


def gen_skew(ops_un, ops_bin, rootops):
    """Depth-3 trees with a binary root from rootops: one operand of depth <= 2, the other of depth <= 1 (both orders)."""
    d1 = list(gen(1, ops_un, ops_bin))
    for op in rootops:
        for x in gen(2, ops_un, ops_bin):
            for y in d1:
                yield ("b", op, x, y)
                yield ("b", op, y, x)


# ---------------------------------------------------------------- string references (MediaWiki help texts)
def r_urlencode(s, mode="QUERY"):
    """Help:Magic words: QUERY (default, also for an unknown mode) is PHP's urlencode (alphanumerics and -_. stay, blank -> +),
    PATH is rawurlencode (-_.~ stay, blank -> %20), WIKI turns blanks into _ and then keeps ;@$!*(),/~: as well."""
    s = s.strip()
    mode = mode.strip().upper()
    if mode not in ("QUERY", "PATH", "WIKI"):
        mode = "QUERY"
    keep = "-_." + ("~" if mode == "PATH" else "") + (";@$!*(),/~:" if mode == "WIKI" else "")
    if mode == "WIKI":
        s = s.replace(" ", "_")
    out = []
    for ch in s:
        if ch.isascii() and (ch.isalnum() or ch in keep):
            out.append(ch)
        elif ch == " " and mode == "QUERY":
            out.append("+")
        else:
            out.append("".join("%%%02X" % b for b in ch.encode("utf-8")))
    return "".join(out)


def r_len(s):
    return str(len(s.strip()))


def r_pos(s, search=" ", offset=0):
    s = s.strip()
    search = search or " "
    i = s.find(search, offset)
    return str(i) if i >= 0 else ""


def r_rpos(s, search=" "):
    s = s.strip()
    search = search or " "
    return str(s.rfind(search))


def r_sub(s, start=0, length=0):
    s = s.strip()
    n = len(s)
    if start < 0:
        start = max(0, n + start)
    start = min(start, n)
    if length == 0:
        end = n
    elif length < 0:
        end = max(start, n + length)
    else:
        end = min(n, start + length)
    return s[start:end]


def r_replace(s, search=" ", repl=""):
    return s.strip().replace(search or " ", repl)


def r_explode(s, delim=" ", pos=0, limit=0):
    s = s.strip()
    delim = delim or " "
    parts = s.split(delim)
    if limit > 0 and len(parts) > limit:
        parts = parts[:limit - 1] + [delim.join(parts[limit - 1:])]
    if pos < 0:
        pos += len(parts)
    return parts[pos] if 0 <= pos < len(parts) else ""


def r_titleparts(t, num=0, first=0):
    """Pinned repository behaviour: segments split at ':' and '/', `first` is a 0-based segment index
    (negative: from the end), `num` segments are returned (0: all, negative: drop that many from the end)."""
    t = t.strip()
    segs = re.split(r"([:/])", t)
    names, seps = segs[0::2], segs[1::2]
    n = len(names)
    if first < 0:
        first = max(0, n + first)
    first = min(first, n)
    if num == 0:
        num = n
    elif num < 0:
        num = max(0, n + num)
    sel = list(range(first, min(n, first + num)))
    out = ""
    for k, i in enumerate(sel):
        if k:
            out += seps[i - 1]
        out += names[i]
    return out


def r_pad(s, cnt, pad="0", left=True):
    cnt = min(cnt, 500)
    if len(s) >= cnt or not pad:
        return s
    fill = (pad * cnt)[:cnt - len(s)]
    return fill + s if left else s + fill


STRINGS = ["".join(p) for n in range(0, 5) for p in itertools.product("ab ", repeat=n)]
STRINGS_T = ["".join(p) for n in range(0, 7) for p in itertools.product("ab", repeat=n)] + \
            ["".join(p) for n in range(5, 6) for p in itertools.product("ab ", repeat=n)]
SEARCH = ["a", "b", "ab", " ", "ba", "aa"]
INTS = list(range(-10, 11))


def string_cases(tier):
    strings = STRINGS if tier == "quick" else sorted(set(STRINGS + STRINGS_T))
    for s in strings:
        core = s.strip()
        yield "{{#len:%s}}" % s, r_len(s)
        yield "{{lc:%s}}" % s.upper(), core.lower()
        yield "{{uc:%s}}" % s, core.upper()
        yield "{{lcfirst:%s}}" % s.upper(), (core.upper()[:1].lower() + core.upper()[1:])
        yield "{{ucfirst:%s}}" % s, (core[:1].upper() + core[1:])
        yield "{{urlencode:%s}}" % s, r_urlencode(s)
        yield "{{urlencode:%s|PATH}}" % s, r_urlencode(s, "PATH")
        yield "{{urlencode:%s|WIKI}}" % s, r_urlencode(s, "WIKI")
        yield "{{#urldecode:%s}}" % urllib.parse.quote_plus(core), core
        for se in SEARCH:
            yield "{{#pos:%s|%s}}" % (s, se), r_pos(s, se)
            yield "{{#rpos:%s|%s}}" % (s, se), r_rpos(s, se)
            yield "{{#replace:%s|%s|X}}" % (s, se), r_replace(s, se, "X")
            for o in range(0, 5):
                yield "{{#pos:%s|%s|%d}}" % (s, se, o), r_pos(s, se, o)
            for p in (-3, -2, -1, 0, 1, 2, 3):
                yield "{{#explode:%s|%s|%d}}" % (s, se, p), r_explode(s, se, p)
                for lim in (1, 2, 3):
                    yield "{{#explode:%s|%s|%d|%d}}" % (s, se, p, lim), r_explode(s, se, p, lim)
        for a in INTS:
            yield "{{#sub:%s|%d}}" % (s, a), r_sub(s, a)
            for b in INTS:
                yield "{{#sub:%s|%d|%d}}" % (s, a, b), r_sub(s, a, b)
        for c in range(0, 9):
            yield "{{padleft:%s|%d}}" % (core.replace(" ", "c"), c), r_pad(core.replace(" ", "c"), c)
            yield "{{padright:%s|%d|xy}}" % (core.replace(" ", "c"), c), r_pad(core.replace(" ", "c"), c, "xy", False)
    titles = ["", "a", "a/b", "a/b/c", "N:a/b/c", "N:a", "a/b/c/d/e", "N:a/b:c"]
    for t in titles:
        yield "{{#titleparts:%s}}" % t, r_titleparts(t)
        for a in INTS:
            yield "{{#titleparts:%s|%d}}" % (t, a), r_titleparts(t, a)
            for b in INTS:
                yield "{{#titleparts:%s|%d|%d}}" % (t, a, b), r_titleparts(t, a, b)
    # all arguments of these functions are trimmed (needle, delimiter, replacement, pad), as the first one is
    for fn, args, want in (("#pos", ["abc", " b "], "1"), ("#rpos", ["abcb", " b "], "3"), ("#replace", ["abc", " b ", " x "], "axc"),
                           ("#explode", ["a,b,c", " , ", "1"], "b"), ("padleft", ["x", "3", " ab "], "abx"),
                           ("padright", ["x", "3", " ab "], "xab"), ("#replace", ["a_b\n", "_\n", "x"], "axb"),
                           ("#sub", [" abc ", " 1 ", " 1 "], "b")):
        yield "{{%s:%s}}" % (fn, "|".join(args)), want
    for u in ("a~b", "a,b (c)", "x/y:z", "é ü", "a+b&c=d", "100%", "a  b"):
        for mode in ("", "QUERY", "PATH", "WIKI", "path", " PATH ", "FOO"):
            yield "{{urlencode:%s|%s}}" % (u, mode), r_urlencode(u, mode or "QUERY")
        yield "{{urlencode:%s}}" % u, r_urlencode(u)
    # arithmetic errors are error elements (so that #iferror sees them), reported once
    for t, want in (("{{#iferror:{{#expr:1/0}}|err|ok}}", "err"), ("{{#iferror:{{#expr:1 mod 0}}|err|ok}}", "err"),
                    ("{{#iferror:{{#expr:sqrt -1}}|err|ok}}", "err"), ("{{#iferror:{{#expr:1/1}}|err|ok}}", "ok"),
                    ("{{#iferror:{{#expr:1/0*2}}|err|ok}}", "err"), ("{{#iferror:{{#expr:2*(3 div 0)+1}}|err|ok}}", "err")):
        yield t, want
    # #ifexpr: any non-zero value is true
    for e, want in (("0.5", "y"), ("1/2", "y"), ("-0.5", "y"), ("0", "n"), ("0.0", "n"), ("1", "y"), ("2-2", "n"), ("10/4", "y"), ("", "n")):
        yield "{{#ifexpr:%s|y|n}}" % e, want
    # plural with fewer forms than needed: the last form is used
    for n, forms, want in (("2", "page", "page"), ("1", "page", "page"), ("0", "page", "page"), ("2", "page|pages", "pages")):
        yield "{{plural:%s|%s}}" % (n, forms), want
    for n, want in (("0", "many"), ("1", "one"), ("2", "many"), ("1.0", "one"), ("01", "one"), ("-1", "many"), ("1+0", "one"),
                    ("3-2", "one"), ("", "many")):
        yield "{{plural:%s|one|many}}" % n, want


MALFORMED_ALPHA = ["1", "2", "+", "*", "(", ")", "pi", "-", "not", ",", "fmod"]


E_SPELLINGS = [
    ("1" + "0" * 23, ["1e23", "1 e 23", "(1)e(23)", "1E23", "1 e23", "1e 23", "( 1 e 23 )"]),
    ("7" + "0" * 30, ["7e30", "7 e 30", "(7)e30"]),
    ("123" + "0" * 40, ["123e40", "123 e 40"]),
    ("200", ["2 e 1e1", "2e1e1", "(2 e 1) e 1", "2e1 e 1", "2 e 1 e 1"]),
    ("1" + "0" * 23 + "1"[:0], ["10e22", "10 e 22", "100 e 21"]),
    ("3" + "0" * 25, ["3e25", "3 e 25", "3e5e20", "(3 e 5) e 20"]),
]


def wellformed_expr(toks):
    """Recognises  E := U (B U)* ;  U := unary* atom ;  atom := number | pi | ( E )  over MALFORMED_ALPHA."""
    pos = [0]

    def atom():
        if pos[0] >= len(toks):
            return False
        t = toks[pos[0]]
        if t in ("1", "2", "pi"):
            pos[0] += 1
            return True
        if t == "(":
            pos[0] += 1
            if not expr() or pos[0] >= len(toks) or toks[pos[0]] != ")":
                return False
            pos[0] += 1
            return True
        return False

    def unary():
        while pos[0] < len(toks) and toks[pos[0]] in ("-", "+", "not"):
            pos[0] += 1
        return atom()

    def expr():
        if not unary():
            return False
        while pos[0] < len(toks) and toks[pos[0]] in ("+", "*", "-", "fmod"):
            pos[0] += 1
            if not unary():
                return False
        return True

    return expr() and pos[0] == len(toks)


def malformed_cases():
    for n in (1, 2, 3, 4):
        for toks in itertools.product(MALFORMED_ALPHA, repeat=n):
            yield " ".join(toks), wellformed_expr(list(toks))


def locales():
    base = os.path.join(os.path.dirname(__import__("wikitextprocessor").__file__), "data")
    return sorted(d for d in os.listdir(base) if os.path.isfile(os.path.join(base, d, "localization.json")))


def numerals(tier):
    pats = ["1234567890123", "1000000000000", "9090909090909", "1111111111111", "1020304050607"]
    fr = ["", "5", "05", "250", "0001"]
    out = []
    for ip in range(0, 13 if tier != "quick" else 9):
        for p in pats[: (5 if tier != "quick" else 3)]:
            for f in fr:
                integer = p[:ip]
                if integer == "" and f == "":
                    continue
                n = (integer or "0") + ("." + f if f else "")
                out.append(n)
    return sorted(set(out))


def replay(case):
    if "input" not in case or "reference" not in case:
        return None
    ctx = new_ctx(lang_code=case.get("locale", "en"))
    try:
        ctx.start_page("Tt")
        try:
            got = ctx.expand(case["input"])
        except Exception as ex:
            got = "EXC " + type(ex).__name__
    finally:
        close_ctx(ctx)
    return [] if got == case["reference"] else [{"oracle": case.get("oracle", "value"), "observed": got, "expected": case["reference"]}]


def work(payload, skip, report):
    acc = Acc(PROP)
    kind = payload[0]
    if kind == "expr":
        _, depth, unops, binops, firstops = payload
        ctx = new_ctx()
        seen = set()
        i = 0
        for e in (gen(depth, unops, binops) if depth < 3 else gen_skew(unops, binops, firstops)):
            if e[0] == "n" or e[1] not in firstops:
                continue
            try:
                want = fmt(fold(e))
            except Exception:
                acc.count("ill_defined_skipped")
                continue
            if "nan" in want or "inf" in want or "j" in want or len(want) > 300:
                acc.count("ill_defined_skipped")
                continue
            for kind2, txt in (("min", rmin(e)), ("full", rfull(e)), ("variant", rvar(e))):
                if txt in seen:
                    continue
                seen.add(txt)
                report(i)
                i += 1
                ctx.start_page("Tt")
                try:
                    got = ctx.expand("{{#expr:" + txt + "}}")
                except Exception as ex:
                    got = "EXC " + type(ex).__name__
                acc.case()
                if got != want:
                    try:
                        close = abs(float(got) - float(want)) <= 1e-9 * max(1.0, abs(float(want)))
                    except Exception:
                        close = False
                    if not close:
                        acc.violation("expr_value:" + kind2, {"input": "{{#expr:" + txt + "}}", "ast": repr(e), "reference": want,
                                                              "oracle": "expr_value:" + kind2}, got, want)
                acc.distinct("values", want)
            if i % 50021 == 0:
                acc.sample({"expr": rmin(e), "value": want})
        close_ctx(ctx)
    elif kind == "spellings":
        # the binary operator "e" with operands and exponents beyond what a float holds exactly, in every spacing / bracketing:
        # one value per group (exact integer arithmetic), whatever the spelling
        ctx = new_ctx()
        i = 0
        for want, texts in E_SPELLINGS:
            for txt in texts:
                report(i)
                i += 1
                ctx.start_page("Tt")
                try:
                    got = ctx.expand("{{#expr:" + txt + "}}")
                except Exception as ex:
                    got = "EXC " + type(ex).__name__
                acc.case()
                acc.distinct("values", want)
                if got != want:
                    acc.violation("expr_value:spelling", {"input": "{{#expr:" + txt + "}}", "reference": want, "oracle": "expr_value:spelling"}, got, want)
        acc.sample({"expr": E_SPELLINGS[0][1][0], "value": E_SPELLINGS[0][0]})
        close_ctx(ctx)
    elif kind == "malformed":
        _, k, n = payload
        ctx = new_ctx()
        for i, (text, ok) in enumerate(itertools.islice(malformed_cases(), k, None, n)):
            report(i)
            ctx.start_page("Tt")
            try:
                got = ctx.expand("{{#expr:" + text + "}}")
            except Exception as ex:
                got = "EXC " + type(ex).__name__
            acc.case()
            is_err = 'class="error"' in got or got.startswith("EXC")
            if ok and is_err and "Divide by zero" not in got:     # (1 fmod not 1: well-formed, but undefined)
                acc.violation("wellformed_expr_has_value", {"input": "{{#expr:" + text + "}}"}, got[:120], "a number")
            if not ok and not is_err:
                acc.violation("malformed_expr_is_error", {"input": "{{#expr:" + text + "}}"}, got[:120], "an expression error element")
        close_ctx(ctx)
    elif kind == "str":
        _, tier, k, n = payload
        ctx = new_ctx()
        for i, (text, want) in enumerate(itertools.islice(string_cases(tier), k, None, n)):
            report(i)
            ctx.start_page("Tt")
            try:
                got = ctx.expand(text)
            except Exception as ex:
                got = "EXC " + type(ex).__name__
            acc.case()
            acc.distinct("values", [text.split(":")[0], want])
            if got != want:
                fn = text[2:].split(":")[0].split("|")[0]
                acc.violation("string_fn:" + fn, {"input": text, "reference": want, "oracle": "string_fn:" + fn}, got, want)
            if i % 30011 == 0:
                acc.sample({"input": text, "value": want})
        close_ctx(ctx)
    elif kind == "fmt_switch":
        # ONE context taken through a sequence of locales the way the repository's tests do it (lang_code, init_data_folder,
        # init_localization_data): after every switch formatnum and its inverse behave as on a fresh context of that locale
        _, seq = payload
        nums = ["1234567.5", "1234.05", "0.5", "987654321"]
        fresh = {}
        for loc in sorted(set(seq)):
            c2 = new_ctx(lang_code=loc)
            c2.start_page("Tt")
            fresh[loc] = [c2.expand("{{formatnum:%s}}" % n) for n in nums]
            close_ctx(c2)
        ctx = new_ctx(lang_code=seq[0])
        for step, loc in enumerate(seq):
            report(step)
            if step:
                ctx.lang_code = loc
                ctx.init_data_folder()
                ctx.init_localization_data()
            ctx.start_page("Tt")
            for n, want_f in zip(nums, fresh[loc]):
                acc.case()
                case = {"locale": loc, "number": n, "locales_before_on_this_context": list(seq[:step])}
                try:
                    f = ctx.expand("{{formatnum:%s}}" % n)
                    back = ctx.expand("{{formatnum:%s|R}}" % f)
                except Exception as ex:
                    f, back = "EXC", type(ex).__name__
                if f != want_f:
                    acc.violation("formatnum_after_locale_switch", case, f, want_f)
                elif back != n:
                    acc.violation("formatnum_R_inverts_after_locale_switch", case, {"formatted": f, "reversed": back}, n)
        acc.sample({"locale_sequence": list(seq)})
        close_ctx(ctx)
    else:
        _, tier, locs = payload
        nums = numerals(tier)
        for loc in locs:
            ctx = new_ctx(lang_code=loc)
            sep = ctx.LOCALIZATION_DATA["grouping_separator"]
            dec = ctx.LOCALIZATION_DATA["decimal_point"]
            for i, n in enumerate(nums):
                report(i)
                ctx.start_page("Tt")
                try:
                    f = ctx.expand("{{formatnum:%s}}" % n)
                    ctx.start_page("Tt")
                    back = ctx.expand("{{formatnum:%s|R}}" % f)
                except Exception as ex:
                    f, back = "EXC", type(ex).__name__
                acc.case()
                case = {"locale": loc, "number": n, "grouping_separator": sep, "decimal_point": dec}
                if back != n:
                    acc.violation("formatnum_R_inverts", case, {"formatted": f, "reversed": back}, n)
                # the decimal point is the locale's, with NOSEP and in locales without a group separator as well
                if "." in n:
                    ctx.start_page("Tt")
                    ns = ctx.expand("{{formatnum:%s|NOSEP}}" % n)
                    if ns != n.replace(".", dec):
                        acc.violation("formatnum_NOSEP_localises_decimal_point", case, ns, n.replace(".", dec))
                    if f.rsplit(dec, 1)[-1] != n.split(".")[1] or dec not in f:
                        acc.violation("formatnum_localises_decimal_point", case, f, "..." + dec + n.split(".")[1])
                ip = n.split(".")[0]
                if len(ip) > 3 and sep and ctx.LOCALIZATION_DATA["grouping_method"] and sep not in f:
                    acc.violation("formatnum_groups_digits", case, f, "integer part grouped with %r" % sep)
            acc.distinct("values", [loc, sep, dec])
            acc.sample({"locale": loc, "sep": sep, "dec": dec})
            close_ctx(ctx)
    return acc


def main(run):
    q = run.tier == "quick"
    chunks = []
    unops = list(UN_SIGN) + list(UN_FN)
    binops = list(BIN)
    for op in unops + binops:
        chunks.append(("expr", 2, unops, binops, [op]))
    if not q:
        # depth 3 over binary operators of adjacent precedence levels and the sign/functions next to them
        levels = sorted(set(BIN.values()))
        for lo, hi in zip(levels, levels[1:]):
            ops = [o for o, p in BIN.items() if p in (lo, hi)][:4]
            for op in ops:
                chunks.append(("expr", 3, ["-", "not"], ops, [op]))
    n = 64
    for k in range(n):
        chunks.append(("str", run.tier, k, n))
    for k in range(16):
        chunks.append(("malformed", k, 16))
    chunks.append(("spellings",))
    locs = locales()
    for k in range(16):
        if locs[k::16]:
            chunks.append(("fmt", run.tier, locs[k::16]))
    # locale sequences on one context: every ordered pair of locales with distinct separator data, and two long walks
    reps = {}
    ctx0 = None
    for loc in locs:
        from ..fixtures import close_ctx as _cc, new_ctx as _nc
        ctx0 = _nc(lang_code=loc)
        key = (ctx0.LOCALIZATION_DATA["grouping_separator"], ctx0.LOCALIZATION_DATA["decimal_point"],
               str(ctx0.LOCALIZATION_DATA.get("grouping_method")))
        reps.setdefault(key, loc)
        _cc(ctx0)
    kinds_ = sorted(reps.values())
    for a, b in itertools.permutations(kinds_, 2):
        chunks.append(("fmt_switch", [a, b]))
        chunks.append(("fmt_switch", [a, b, a]))
    chunks.append(("fmt_switch", kinds_ + kinds_[::-1]))
    done = 0
    for cid, acc, hung in run_chunks(work, chunks, nproc=run.nproc, case_timeout=60):
        run.acc.merge(acc)
        done += 1
        if done % 50 == 0:
            run.log("chunks", done, "/", len(chunks), "cases", run.acc.n)
    cov = {
        "distinct_nontrivial": len(run.acc.sets.get("values", ())),
        "locales": len(locs),
        "rule": "#expr: every AST of depth <= 2 over all %d binary and %d unary operators and 3 atoms%s, each rendered minimally "
                "parenthesised (from the documented precedence table), fully parenthesised and with spacing/letter-case variation, "
                "compared with an independent fold (ill-defined ones belong to C05); every token string of length <= 4 over 11 symbols must be an "
                "expression error iff it is not derivable from the expression grammar; string functions: every string of length <= %s "
                "over {a,b,blank} x search strings x all offsets/lengths/counts in [-10,10]; #titleparts grids; plural; formatnum|R "
                "round trip for all %d shipped locales x %d numeral shapes; one context switched through every ordered pair (and a-b-a, and a long walk) of locales with distinct separator data. distinct = distinct (function, value) pairs."
                % (len(BIN), len(unops), "" if q else " plus depth 3 (binary root, one operand of depth <= 2 and the other of depth <= 1, both orders) over operators of adjacent precedence levels", "4" if q else "6",
                   len(locs), len(numerals(run.tier))),
        "exhaustive": True,
    }
    assumptions = [
        "reference definitions written from the MediaWiki help texts; #titleparts follows the behaviour pinned by the repository's tests (':' and '/' segmentation, 0-based first)",
        "float results are compared with relative tolerance 1e-9",
    ]
    return run.finish(cov, assumptions, replay_fn=replay)
