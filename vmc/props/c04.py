"""C04  Template expansion agrees with the reference transclusion semantics.

Bounded exhaustive exploration: every (library, page) pair of the expansion-AST
grammar up to a total size bound is rendered to wikitext, expanded by the real
Wtp.expand(), and compared exactly with a direct evaluator of the AST.
"""
from __future__ import annotations

import itertools

from ..fixtures import close_ctx, new_ctx
from ..pool import run_chunks
from ..ref_expand import WRAPPERS, Grammar, body_text, depth, ev, mentions, render
from ..runner import Acc

PROP = "C04"
LEVEL = "exploration"

ATOMS_Q = ["x", " x ", "", "\nx", "*x"]
ATOMS_T = ["x", " x", "x ", "", "\nx", "*x", "#x"]
NAMES = ["1", "k", "2"]
KEYS_Q = [None, "k", " k ", "1"]
KEYS_T = [None, "k", " k ", "1"]


def grammar(tier):
    if tier == "quick":
        return Grammar(ATOMS_Q, ["1", "k"], KEYS_Q)
    return Grammar(ATOMS_T, NAMES, KEYS_T)


def libraries(g, total, tier):
    """Yields (lib dict name->(body, wrapper), remaining size)."""
    yield {}, total - 1
    # one template b
    for sb in range(1, total):
        for body in g.exprs(sb, True, []):
            yield {"b": (body, "none")}, total - sb
    # two templates: b may call c
    for sb in range(1, total - 1):
        for sc in range(1, total - sb):
            for cbody in g.exprs(sc, True, []):
                for bbody in g.exprs(sb, True, ["c"]):
                    if not mentions(bbody, "c"):
                        continue
                    yield {"b": (bbody, "none"), "c": (cbody, "none")}, total - sb - sc


def lib_key(lib):
    return {k: [render(v[0]), v[1]] for k, v in lib.items()}


def install(ctx, lib):
    for name, (body, w) in lib.items():
        ctx.add_page("Template:" + name, 10, body_text(body, w))


def check(ctx, lib, page):
    text = render(page)
    ctx.start_page("Tt")
    try:
        got = ctx.expand(text)
    except Exception as e:
        got = "EXC " + type(e).__name__ + ": " + str(e)[:80]
    want = ev(page, None, lib)
    return text, got, want


def classify(lib, page, got, want):
    """Names the oracle by the rule that is involved, so known findings stay narrow."""
    if got.startswith("EXC "):
        return "no_exception"
    return "expand_equals_reference"


def work(payload, skip, report):
    acc = Acc(PROP)
    tier, total, start, step = payload
    g = grammar(tier)
    ctx = new_ctx()
    i = 0
    for lib, rem in itertools.islice(libraries(g, total, tier), start, None, step):
        install(ctx, lib)
        callees = sorted(lib)
        for ps in range(1, rem + 1):
            for page in g.exprs(ps, False, callees):
                if lib and not mentions(page, "b"):
                    continue
                if depth(page) > 4:
                    continue
                report(i)
                i += 1
                text, got, want = check(ctx, lib, page)
                acc.case()
                if got != want:
                    acc.violation(classify(lib, page, got, want),
                                  {"library": {k: [body_text(*v), v[1]] for k, v in lib.items()}, "page": text, "ast": repr(page),
                                   "reference": want}, got, want)
                acc.distinct("outputs", want)
                if i % 20011 == 0:
                    acc.sample({"library": lib_key(lib), "page": text, "expands_to": want})
    close_ctx(ctx)
    return acc


def work_extra(payload, skip, report):
    """Wrapper slice and trailing-newline slice: explicit case lists."""
    acc = Acc(PROP)
    ctx = new_ctx()
    for i, (lib, page) in enumerate(payload):
        report(i)
        install(ctx, lib)
        text, got, want = check(ctx, lib, page)
        acc.case()
        if got != want:
            acc.violation(classify(lib, page, got, want),
                          {"library": {k: [body_text(*v), v[1]] for k, v in lib.items()}, "page": text, "ast": repr(page),
                           "reference": want}, got, want)
        acc.distinct("outputs", want)
    close_ctx(ctx)
    return acc


# Explicit slice outside the AST grammar (the renderer cannot express these unambiguously): argument names that are
# themselves computed, and values containing '=' that travel through a parameter into a positional argument.
# (library as text, page, expected by the MediaWiki rules: the name=value split happens before anything is substituted)
TEXT_LIB = {"one": "1", "kk": "k", "sp": " k ", "a": "[{{{1|}}}/{{{k|}}}]", "inner": "<{{{1|}}}>", "outer": "{{inner|{{{1}}}}}",
            "outerk": "{{inner|1={{{1}}}}}", "fwd2": "{{outer|{{{1}}}}}", "kv": "k=v",
            # comments in bodies: one that stands alone on its line goes with the line, any other one is cut out in place
            "cmA": "<!-- u -->[{{{1}}}]<!-- e -->\ntail", "cmB": "a<!-- x -->b\n<!-- alone -->\nc{{{1}}}", "cmC": "<!-- first -->\nbody{{{1}}}",
            "cmD": "p <!-- 1 --> q{{{1}}} <!-- 2 -->\n<!-- 3 --> r", "cmE": "x{{{1}}}\n  <!-- indented alone -->  \ny",
            "cmF": "<!-- a --><!-- b -->z{{{1}}}<!-- c -->\n<!-- d -->", "cmG": "s<!-- multi\nline -->t{{{1}}}<!-- e -->\nu"}
TEXT_CASES = [
    ("{{a|{{one}}=x}}", "[x/]"), ("{{a|{{kk}}=y}}", "[/y]"), ("{{a|{{sp}}=y}}", "[/y]"), ("{{a| {{kk}} = y }}", "[/y]"),
    ("{{a|{{one}}=x|z}}", "[z/]"), ("{{a|z|{{one}}=x}}", "[x/]"), ("{{a|{{one}}{{one}}=x}}", "[/]"),
    ("{{inner|{{kv}}}}", "<k=v>"), ("{{outerk|1=x=y}}", "<x=y>"), ("{{inner|1=a=b}}", "<a=b>"),
    ("{{outer|1=x=y}}", "<x=y>"), ("{{outer|1=http://h/?q=1}}", "<http://h/?q=1>"), ("{{fwd2|1=x=y}}", "<x=y>"),
    ("{{outer|1= x=y }}", "<x=y>"),
    ("{{cmA|X}}", "[X]\ntail"), ("{{cmB|X}}", "ab\ncX"), ("{{cmC|X}}", "bodyX"), ("{{cmD|X}}", "p  qX \n r"), ("{{cmE|X}}", "xX\ny"),
    ("{{cmF|X}}", "zX\n"), ("{{cmG|X}}", "stX\nu"),
    # transclusion of pages outside the Template namespace follows the same includable-part rules
    ("{{:Mainpage}}", "ac"), ("{{Help:Hp}}", "h"), ("x{{:Mainpage}}y{{:Mainpage}}", "xacyac"),
]
TEXT_PAGES = [("Mainpage", 0, "a<noinclude>b</noinclude><includeonly>c</includeonly>"), ("Help:Hp", 12, "h<noinclude>n</noinclude>")]


def work_text(payload, skip, report):
    acc = Acc(PROP)
    ctx = new_ctx()
    for name, body in TEXT_LIB.items():
        ctx.add_page("Template:" + name, 10, body)
    for t, ns, b in TEXT_PAGES:
        ctx.add_page(t, ns, b)
    for i, (page, want) in enumerate(payload):
        report(i)
        ctx.start_page("Tt")
        try:
            got = ctx.expand(page)
        except Exception as e:
            got = "EXC " + type(e).__name__ + ": " + str(e)[:80]
        acc.case()
        acc.count("text_cases")
        if got != want:
            oracle = "value_with_equals_sign_through_parameter" if page.startswith(("{{outer|", "{{fwd2|")) else "expand_equals_reference"
            acc.violation(oracle, {"library": {k: [v, "none"] for k, v in TEXT_LIB.items()}, "page": page, "reference": want}, got, want)
        acc.distinct("outputs", want)
    close_ctx(ctx)
    return acc


# Library histories: a template that is called while it does not exist yet, defined afterwards, redefined, and called
# again - directly and from the body of another template.  After every step the page expands as on a fresh context that
# holds the library of that moment.
HIST_STEPS = [("add", "hwrap", "({{hlate|{{{1|}}}}})"), ("use",), ("add", "hlate", "L[{{{1|}}}]"), ("use",), ("add", "hlate", "M[{{{1|}}}]"),
              ("use",), ("add", "Hcap", "C"), ("use",), ("add", "hwrap", "<{{hlate|{{{1|}}}|}}>"), ("use",)]
HIST_PAGES = ["{{hlate|x}}", "{{hwrap|y}}", "{{hcap}}{{Hcap}}", "{{#if:1|{{hlate|z}}}}"]


def work_history(payload, skip, report):
    acc = Acc(PROP)
    i = 0
    for order in (HIST_STEPS, [s for s in HIST_STEPS if s[0] == "add"] + [("use",)]):
        ctx = new_ctx()
        lib = {}
        for k, step in enumerate(order):
            if step[0] == "add":
                ctx.add_page("Template:" + step[1], 10, step[2])
                lib[step[1]] = step[2]
                continue
            fresh = new_ctx()
            for n, b in lib.items():
                fresh.add_page("Template:" + n, 10, b)
            for page in HIST_PAGES:
                report(i)
                i += 1
                fresh.start_page("Tt")
                want = fresh.expand(page)
                ctx.start_page("Tt")
                try:
                    got = ctx.expand(page)
                except Exception as e:
                    got = "EXC " + type(e).__name__ + ": " + str(e)[:80]
                acc.case()
                acc.count("history_cases")
                if got != want:
                    acc.violation("expands_as_with_the_current_library", {"steps": [list(s) for s in order[:k + 1]], "page": page}, got, want)
            close_ctx(fresh)
        close_ctx(ctx)
    acc.sample({"steps": [list(s) for s in HIST_STEPS[:4]], "page": HIST_PAGES[0]})
    return acc


def replay(case):
    if "steps" in case:
        return None
    # replays by text: library bodies and page text are stored rendered
    ctx = new_ctx()
    try:
        for name, (body, w) in case["library"].items():
            ctx.add_page("Template:" + name, 10, body)
        ctx.start_page("Tt")
        try:
            got = ctx.expand(case["page"])
        except Exception as e:
            got = "EXC " + type(e).__name__
    finally:
        close_ctx(ctx)
    want = case.get("reference")
    if want is None:
        return None
    return [] if got == want else [{"oracle": "expand_equals_reference", "observed": got, "expected": want}]


def main(run):
    tier = run.tier
    g = grammar(tier)
    total = 5
    nlibs = sum(1 for _ in libraries(g, total, tier))
    run.log("libraries", nlibs)
    n = 512 if tier != "quick" else 64
    chunks = [(tier, total, i, n) for i in range(n)]
    done = 0
    for cid, acc, hung in run_chunks(work, chunks, nproc=run.nproc, case_timeout=30):
        run.acc.merge(acc)
        done += 1
        if done % 32 == 0:
            run.log("chunks", done, "/", len(chunks), "cases", run.acc.n)
    # wrapper slice: every inclusion wrapper x bodies of size <= 2 x pages of size <= 2 calling b
    gq = grammar("quick") if tier == "quick" else g
    extra = []
    for w in WRAPPERS:
        for sb in (1, 2):
            for body in gq.exprs(sb, True, []):
                for ps in (1, 2, 3):
                    for page in gq.exprs(ps, False, ["b"]):
                        if mentions(page, "b") and (ps < 3 or tier != "quick"):
                            extra.append(({"b": (body, w)}, page))
    # trailing-newline slice (positional values ending in a newline; see known findings)
    for atom in ("x\n", "x\n\n", "\n"):
        for body in (("P", "1", None), ("SEQ", [("T", "["), ("P", "1", None), ("T", "]")]), ("C", "c", [(None, ("P", "1", None))])):
            lib = {"b": (body, "none"), "c": (("SEQ", [("T", "<"), ("P", "1", None), ("T", ">")]), "none")}
            extra.append((lib, ("C", "b", [(None, ("T", atom))])))
            extra.append((lib, ("C", "b", [("1", ("T", atom))])))
    m = 64
    echunks = [extra[i::m] for i in range(m)]
    for cid, acc, hung in run_chunks(work_extra, [c for c in echunks if c], nproc=run.nproc, case_timeout=30):
        run.acc.merge(acc)
    for cid, acc, hung in run_chunks(work_text, [TEXT_CASES], nproc=1, case_timeout=30):
        run.acc.merge(acc)
    for cid, acc, hung in run_chunks(work_history, [("history",)], nproc=1, case_timeout=30):
        run.acc.merge(acc)
    cov = {
        "distinct_nontrivial": len(run.acc.sets.get("outputs", ())),
        "rule": "every (library, page) with total AST size <= %d: libraries of 0..2 templates (b may call c; call graph acyclic by "
                "construction; one deliberately missing template), bodies and pages from the grammar Text | Param[default] | "
                "Call(positional/named args) | #if | #ifeq | #switch | sequence, nesting depth <= 4, over %d text atoms with "
                "leading/trailing/interior blanks, newline and list-marker starts, %d parameter names, %d argument-key forms; plus "
                "every inclusion wrapper (%d) x bodies of size <= 2 x calling pages; %d explicit text cases with computed argument names "
                "and '='-containing values forwarded through parameters; two library histories (templates called before they exist, defined, redefined) "
                "compared step by step with fresh contexts. Distinct = distinct reference outputs."
                % (total, len(g.atoms), len(g.names), len(g.keys), len(WRAPPERS), len(TEXT_CASES)),
        "exhaustive": True,
    }
    assumptions = [
        "the AST evaluator in vmc/ref_expand.py (no wikitext parsing) and the AST->wikitext renderer are the trusted reference",
        "text atoms avoid '=', '|', braces and brackets, so the rendering is unambiguous",
    ]
    return run.finish(cov, assumptions, replay_fn=replay)
