"""C19  Serialising a parse tree back to wikitext preserves it.

Bounded exhaustive exploration (metamorphic): every document of the block/inline
grammar up to a size bound is parsed, serialised, re-parsed and compared under a
normal form that ignores whitespace at block boundaries only; the second round
trip must be a fixed point; every self-standing sub-tree and children list of
every parsed document is also passed to node_to_wikitext() directly.
"""
from __future__ import annotations

import itertools
import re

from ..fixtures import close_ctx, new_ctx
from ..pool import run_chunks
from ..runner import Acc
from ..treeutil import LEVELK, K
from wikitextprocessor import WikiNode

PROP = "C19"
LEVEL = "exploration"

ATOMS = ["x", "y z", "p [[ q", "p ]] q", "[[a]]", "{{PAGENAME:}}", "{{PAGENAME}}", "{{#if:|}}", "{{t|}}", "{{t||x}}", "{{lc:}}"]
# further atoms: used bare and under one wrapper only (they do not multiply through the depth-2 products)
EXTRA_ATOMS = ["r [1][2] s", "e [] f", '<span id="id" lang="lang">v</span>',     # attribute values spelled like their names
               "{{t|{{t|x}}\nc}}", "[[a|{{t|x}}\nc]]",   # an argument that goes on after a nested call, on a new line
               'p<br clear="all">q', '<span id="e"></span>', '<ref name="n" />', "-3", "+1", "}x"]   # void / empty elements with attributes; the last three: cell texts that begin like a table marker
WRAPS = ["'''%s'''", "''%s''", "[[a|%s]]", "{{t|%s}}", "{{t|k=%s}}", "{{#if:x|%s|z}}", '<span class="c">%s</span>',
         "<b>%s</b>", "[http://x.y %s]", "{{{p|%s}}}"]
BLOCKS = [
    "%s\n", "==%s==\n", "===%s===\n", "*%s\n", "#%s\n", "*%s\n**%s\n", "*%s\n*%s\n", ";%s:%s\n", ";%s\n:%s\n",
    "{|\n|%s\n|}\n", '{| class="c"\n|+%s\n|-\n! %s !! %s\n|-\n| style="s" | %s || %s\n|}\n',
    "{|\n|-\n|%s\n|%s\n|-\n!%s\n|}\n", "{|\n|%s||%s\n|}\n", "{|\n!%s!!%s\n|}\n",
    '{|\n! scope="col" | %s\n! id="h2" | %s\n|- class="r"\n| %s\n|}\n', '{| id="t"\n|+ class="k" |%s\n|-\n! colspan="2" | %s\n|}\n',
    '{| class="class"\n|+ lang="lang" |%s\n|- id="id"\n! scope="scope" | %s\n| nowrap="nowrap" | %s\n|}\n',
    # a list as the first thing inside a cell / a header cell / an element (the line break in front of it matters)
    "{|\n|\n*%s\n*%s\n|}\n", '{|\n! h\n|-\n| class="c" |\n#%s\n|}\n', "<div>\n*%s\n</div>\n",
    '<div class="c"><span id="s">%s</span></div>\n', "{|\n|+ %s\n|}\n", "----\n", "<div>%s</div>\n", '<div id="i">\n%s\n</div>\n', ":%s\n",
]
# cells glued to the inline cell separator; in the quick tier their second slot ranges over TIGHT_SECOND only
TIGHT_BLOCKS = {"{|\n|%s||%s\n|}\n", "{|\n!%s!!%s\n|}\n"}
TIGHT_SECOND = ["x", "-3", "+1", "}x", "'''x'''", "[[a]]", "{{t|x}}", "''-3''"]
BLOCK_KINDS = set(LEVELK) | {K.ROOT, K.LIST, K.LIST_ITEM, K.TABLE, K.TABLE_CAPTION, K.TABLE_ROW, K.TABLE_HEADER_CELL,
                             K.TABLE_CELL, K.HLINE, K.PREFORMATTED, K.PRE}
SELF_STANDING = set(LEVELK) | {K.LIST, K.TABLE, K.BOLD, K.ITALIC, K.LINK, K.TEMPLATE, K.PARSER_FN, K.HTML, K.HLINE,
                               K.TEMPLATE_ARG, K.URL}


def inlines(depth, top=True, wrapped_extra=True):
    out = list(ATOMS)
    if top:
        out += EXTRA_ATOMS
        if wrapped_extra:
            out += [w % e for w in WRAPS for e in EXTRA_ATOMS if not w.startswith(("[[a|", "[http"))]
    if depth > 0:
        for w in WRAPS:
            for i in inlines(depth - 1, False):
                if w.startswith("[[a|") and ("[" in i or "]" in i):
                    continue  # a link inside link text is not in the grammar
                if w.startswith("[http") and ("[" in i or "]" in i):
                    continue
                out.append(w % i)
    return out


def is_block(n):
    return isinstance(n, WikiNode) and (n.kind in BLOCK_KINDS or (n.kind == K.HTML and n.sarg == "div"))


def nf_list(lst, owner_block):
    merged = []
    for c in lst:
        if isinstance(c, str):
            if merged and isinstance(merged[-1], str):
                merged[-1] += c
            else:
                merged.append(c)
        else:
            merged.append(c)
    res = []
    n = len(merged)
    for i, c in enumerate(merged):
        if isinstance(c, str):
            s = c
            if (i == 0 and owner_block) or (i > 0 and is_block(merged[i - 1])):
                s = s.lstrip()
            if (i == n - 1 and owner_block) or (i < n - 1 and is_block(merged[i + 1])):
                s = s.rstrip()
            if s == "":
                continue
            res.append(s)
        else:
            res.append(nf(c))
    return res


def nf(n):
    if isinstance(n, str):
        return n
    if isinstance(n, (list, tuple)):
        return nf_list(list(n), True)
    blk = is_block(n)
    if n.kind in LEVELK:
        largs = [nf_list(a, True) for a in n.largs]
    else:
        largs = [nf_list(a, False) for a in n.largs]
    return [n.kind.name, n.sarg, largs, sorted(n.attrs.items()), nf_list(n.children, blk),
            nf_list(n.definition, True) if n.definition is not None else None]


def has_kind(tree, kind):
    if isinstance(tree, WikiNode):
        if tree.kind == kind:
            return True
        return any(has_kind(c, kind) for c in tree.children) or any(has_kind(c, kind) for a in tree.largs for c in a) \
            or (tree.definition is not None and any(has_kind(c, kind) for c in tree.definition))
    return False


def count_links(tree):
    if isinstance(tree, str):
        return 0
    if isinstance(tree, (list, tuple)):
        return sum(count_links(c) for c in tree)
    k = 1 if tree.kind == K.LINK else 0
    k += sum(count_links(c) for c in tree.children) + sum(count_links(c) for a in tree.largs for c in a)
    if tree.definition:
        k += count_links(tree.definition)
    return k


def strip_guard(x):
    if isinstance(x, str):
        return x.replace("[<noinclude/>[", "[[").replace("]<noinclude/>]", "]]")
    if isinstance(x, list):
        return [strip_guard(y) for y in x]
    return x


def contains_nf(haystack, needle):
    if haystack == needle:
        return True
    if isinstance(haystack, list):
        return any(contains_nf(h, needle) for h in haystack)
    return False


def leaf_diffs(a, b, out, in_call=False):
    """Collects (a_leaf, b_leaf, inside_call_argument) for differing positions; returns False if shapes differ."""
    if isinstance(a, str) and isinstance(b, str):
        if a != b:
            out.append((a, b, in_call))
        return True
    if isinstance(a, list) and isinstance(b, list):
        if len(a) != len(b):
            return False
        call = in_call
        if len(a) == 6 and isinstance(a[0], str) and a[0] in ("TEMPLATE", "PARSER_FN", "TEMPLATE_ARG"):
            call = True
        return all(leaf_diffs(x, y, out, call) for x, y in zip(a, b))
    if a == b:
        return True
    if isinstance(a, tuple) and isinstance(b, tuple):
        return a == b
    return False


def uncaption_pre(t):
    """The tree with every caption whose only child is a PREFORMATTED node replaced by that node's children
    (known finding K03: the emitter writes the caption text on its own line with a leading blank)."""
    if isinstance(t, list):
        if len(t) == 6 and t[0] == "TABLE_CAPTION" and isinstance(t[4], list) and len(t[4]) == 1 \
                and isinstance(t[4][0], list) and len(t[4][0]) == 6 and t[4][0][0] == "PREFORMATTED":
            return [t[0], t[1], uncaption_pre(t[2]), t[3], uncaption_pre(t[4][0][4]), t[5]]
        return [uncaption_pre(x) for x in t]
    return t


def classify(n1, n2, default):
    """Known limitation gets its own oracle name: inside call arguments the <noinclude/> guard that
    node_to_wikitext puts between literal double brackets is kept as text by the parser."""
    diffs = []
    if leaf_diffs(n1, n2, diffs) and diffs and all(
            c and b.replace("[<noinclude/>[", "[[").replace("]<noinclude/>]", "]]") == a for a, b, c in diffs):
        return "brackets_in_call_argument_roundtrip"
    u2 = uncaption_pre(n2)
    if u2 != n2:
        if u2 == n1:
            return "caption_leading_blank_roundtrip"
        diffs = []   # both known limitations in one document
        if leaf_diffs(n1, u2, diffs) and diffs and all(
                c and b.replace("[<noinclude/>[", "[[").replace("]<noinclude/>]", "]]") == a for a, b, c in diffs):
            return "caption_leading_blank_roundtrip"
    return default


def collapse(s):
    return re.sub(r"\n+", "\n", s).strip()


def check_doc(ctx, doc, subtrees):
    out = []
    ctx.start_page("Tt")
    t1 = ctx.parse(doc)
    w1 = ctx.node_to_wikitext(t1)
    ctx.start_page("Tt")
    t2 = ctx.parse(w1)
    n1, n2 = nf(t1), nf(t2)
    if n1 != n2:
        out.append((classify(n1, n2, "roundtrip_equivalent"), {"w1": w1, "t2": n2}, n1))
    if count_links(t2) != count_links(t1):
        out.append(("literal_brackets_stay_text", {"w1": w1, "links_after": count_links(t2)}, {"links_before": count_links(t1)}))
    w2 = ctx.node_to_wikitext(t2)
    ctx.start_page("Tt")
    t3 = ctx.parse(w2)
    w3 = ctx.node_to_wikitext(t3)
    if nf(t3) != n2:
        out.append(("second_trip_fixed_point", {"w2": w2, "t3": nf(t3)}, n2))
    elif collapse(w3) != collapse(w2):
        out.append(("second_trip_fixed_point", {"w3": w3}, {"w2": w2}))
    nsub = 0
    if subtrees:
        stack = [t1]
        while stack:
            n = stack.pop()
            if not isinstance(n, WikiNode):
                continue
            stack.extend(n.children)
            for a in n.largs:
                stack.extend(a)
            cands = []
            if n is not t1 and n.kind in SELF_STANDING:
                cands.append(("node", n))
            if n.kind in (K.ROOT, K.BOLD, K.ITALIC) or n.kind in LEVELK or (n.kind == K.HTML and n.children):
                if n.children:
                    cands.append(("children", n.children))
            for what, sub in cands:
                nsub += 1
                ws = ctx.node_to_wikitext(sub)
                ctx.start_page("Tt")
                ts = ctx.parse(ws)
                want = nf(sub) if what == "node" else nf_list(sub, True)
                got = nf(ts)
                ok = contains_nf(got, want) if what == "node" else (got[4] == want)
                if not ok:
                    orc = "subtree_roundtrip"
                    g3 = uncaption_pre(got)
                    if g3 != got:
                        g4 = strip_guard(g3) if ("<noinclude/>" in ws and "{{" in ws) else g3
                        if (contains_nf(g3, want) if what == "node" else (g3[4] == want)) or \
                                (contains_nf(g4, want) if what == "node" else (g4[4] == want)):
                            orc = "caption_leading_blank_roundtrip"
                    if "<noinclude/>" in ws and ("{{" in ws):
                        g2 = strip_guard(got)
                        ok2 = contains_nf(g2, want) if what == "node" else (g2[4] == want)
                        if ok2:
                            orc = "brackets_in_call_argument_roundtrip"
                    out.append((orc, {"what": what, "wikitext": ws, "reparsed": got}, want))
        # plain strings with literal double brackets passed directly (API accepts str)
        for s in ("see [[a]] here", "x ]] y [[ z", "t [[[a]]] u", "[[[[a]]]]", "a]]]b[[[c"):
            ws = ctx.node_to_wikitext(s)
            ctx.start_page("Tt")
            ts = ctx.parse(ws)
            if count_links(ts) != 0 or nf(ts)[4] != [s]:
                out.append(("literal_brackets_stay_text", {"wikitext": ws, "reparsed": nf(ts)}, [s]))
    return out, n1, nsub


def work(payload, skip, report):
    acc = Acc(PROP)
    docs = payload
    ctx = new_ctx()
    for i, (doc, subtrees) in enumerate(docs):
        report(i)
        out, n1, nsub = check_doc(ctx, doc, subtrees)
        acc.case()
        acc.count("subtrees", nsub)
        acc.distinct("trees", n1)
        for oracle, obs, exp in out:
            acc.violation(oracle, {"input": doc}, obs, exp)
        if i % 4001 == 0:
            acc.sample({"input": doc})
    close_ctx(ctx)
    return acc


def replay(case):
    ctx = new_ctx()
    try:
        out, _, _ = check_doc(ctx, case["input"], True)
    finally:
        close_ctx(ctx)
    return [{"oracle": o, "observed": ob, "expected": ex} for o, ob, ex in out]


def gen_docs(tier):
    q = tier == "quick"
    i1, i2 = inlines(1), inlines(2)
    i1_plain = inlines(1, True, False)
    docs = []
    singles1 = []   # single blocks with depth-1 inlines (all slots independent up to 2 slots)
    for b in BLOCKS:
        k = b.count("%s")
        if k == 0:
            docs.append(b)
            singles1.append(b)
        elif k == 1:
            for x in i2:
                docs.append(b % x)
            for x in i1:
                if not b.startswith("{|\n|+ "):
                    singles1.append(b % x)
        elif k == 2:
            # quick: the second slot does without the wrapped forms of the extra atoms (the first slot has them)
            second = TIGHT_SECOND if (q and b in TIGHT_BLOCKS) else (i1_plain if q else i1)
            for x, y in itertools.product(i1, second):
                docs.append(b % (x, y))
            for x in i1:
                singles1.append(b % (x, x))
        else:
            for x in i2:
                docs.append(b % ((x,) * k))
            for x in i1:
                singles1.append(b % ((x,) * k))
    docs = [(d, True) for d in docs]
    # pairs of blocks
    # (thorough: every third single block in both positions, and EVERY single block before and after every block kind
    # with plain content; the full square of all single blocks would be 16 million documents)
    rep = singles1[::3] if not q else singles1[::13]
    for a, b in itertools.product(rep, repeat=2):
        docs.append((a + b, False))
    if not q:
        small = [b % (("x",) * b.count("%s")) for b in BLOCKS] + [b % (("'''x'''",) * b.count("%s")) for b in BLOCKS[:6]]
        for a, b in itertools.product(singles1, small):
            docs.append((a + b, True))
            docs.append((b + a, True))
        core = singles1[::9]
        for a, b, c in itertools.product(small, core, small):
            docs.append((a + b + c, False))
    return docs


def list_docs(tier):
    """Every list prefix over {*, #, :, ;} up to length 3 (thorough 4): one item, two items, the staircase leading to it,
    and for prefixes ending in ';' the definition on the same line and on its own line."""
    out = []
    atoms = ["x", "'''b'''", "[[a]]", "{{t|x}}"]
    for L in range(1, 4 if tier == "quick" else 5):
        for pre in itertools.product("*#:;", repeat=L):
            p = "".join(pre)
            for a in atoms:
                out.append("%s%s\n" % (p, a))
                out.append("%s%s\n%sy\n" % (p, a, p))
                if L > 1:
                    out.append("".join("%s%s\n" % (p[:k], a) for k in range(1, L + 1)))
                if p.endswith(";"):
                    out.append("%s%s:d\n" % (p, a))
                    out.append("%s%s\n%s:d %s\n" % (p, a, p[:-1], a))
                    out.append("%s%s\n%s:d\n%sz\n" % (p, a, p[:-1], p))
                    # a definition that is present but EMPTY: nothing at all after the colon (end of the text, end of an element)
                    out.append("%s%s:" % (p, a))
                    out.append("intro\n<div>\n%s%s:</div>after\n" % (p, a))
                    out.append("%s%s:\n" % (p, a))
    return out


def main(run):
    docs = gen_docs(run.tier)
    docs += [(d, True) for d in list_docs(run.tier)]
    n = 128
    # an unclosed literal "[[" followed anywhere by "]]" is a real link, not literal text: outside the grammar
    docs = [d for d in docs if not (d[0].find("p [[ q") >= 0 and "]]" in d[0][d[0].find("p [[ q") + 6:])]
    chunks = [docs[i::n] for i in range(n)]
    chunks = [c for c in chunks if c]
    for cid, acc, hung in run_chunks(work, chunks, nproc=run.nproc, case_timeout=30):
        run.acc.merge(acc)
    cov = {
        "distinct_nontrivial": len(run.acc.sets.get("trees", ())),
        "rule": "documents = 1..%d blocks from %d block templates (paragraph, 2 heading levels, bullet/numbered/nested/sibling lists, "
                "definition lists in both forms, 3 table shapes incl. attributes/caption/header/inline separators, rule, div) whose "
                "slots range over all inline expressions of nesting depth <= 2 (%d atoms incl. literal [[ and ]], %d wrappers: bold, "
                "italic, piped link, template positional/named arg, parser function, span/b elements with URL-safe attrs, external "
                "link, parameter); plus every list prefix over {*, #, :, ;} of length <= %d as one item, two items, a staircase, and "
                "(for prefixes ending in ';') with the definition on the same and on its own line; every self-standing sub-tree and children list of each parsed document passed directly; "
                "distinct = distinct normal-form trees." % (2 if run.tier == "quick" else 3, len(BLOCKS), len(ATOMS), len(WRAPS), 3 if run.tier == "quick" else 4),
        "exhaustive": True,
    }
    assumptions = [
        "equivalence ignores whitespace only at block boundaries (start/end of a block node's children, next to a block node) and around heading titles",
        "magic words and <pre> are outside the statement's grammar and not generated",
    ]
    return run.finish(cov, assumptions, replay_fn=replay)
