"""C10  The page store returns the latest version of every page under every spelling.

Model checking over operation histories: every sequence of <= K operations over
{add, add without prefix, redirect, commit, reopen, probe(identity, spelling),
probe through a second context} on a 4-identity title universe whose spellings
are forced to collide, executed on a fresh real Wtp, in lock-step with a dict
reference model written from the statement.
"""
from __future__ import annotations

import itertools
import os
import shutil

from ..fixtures import clear_page_cache, new_ctx, scratch_dir
from ..pool import run_chunks
from ..runner import Acc

PROP = "C10"
LEVEL = "model_checking"

NS = {10: ("Template", ["template", "t"]), 828: ("Module", ["module", "mod"]), 0: ("", []),
      # a namespace whose local name differs from its canonical name and that has an alias as well, and its talk namespace
      4: ("Wiktionary", ["wiktionary", "wt", "project"]), 5: ("Wiktionary talk", ["wiktionary talk", "project talk"])}
# identities: stored title, namespace id
IDENT = {
    "T1": ("Template:Foo bar", 10),
    "T2": ("Template:foo bar", 10),   # same title with a lower-case first letter
    "M1": ("Foo bar", 0),             # same text as T1 without prefix, main namespace
    "L1": ("Module:Foo bar", 828),
}
BODIES = ["b1", "b2"]
# second universe: page names that contain a colon themselves (the namespace prefix ends at the FIRST colon), next to a
# page whose name is the part after that colon
IDENT_MAIN = IDENT
IDENT_COLON = {
    "T3": ("Template:Foo:bar", 10),
    "T4": ("Template:bar", 10),
    "L3": ("Module:data:sub", 828),
}


# third universe: the project namespace (local name, canonical name and alias all differ) and its talk namespace
IDENT_PROJECT = {
    "P1": ("Wiktionary:About", 4),
    "P2": ("Wiktionary talk:About", 5),
    "P3": ("Wiktionary:Alias", 4),
}


def set_universe(name):
    global IDENT
    IDENT = IDENT_COLON if name == "colon" else IDENT_PROJECT if name == "project" else IDENT_MAIN


def alphabet_project():
    ops = []
    for i in ("P1", "P2"):
        for b in BODIES:
            ops.append(("add", i, b))
    ops.append(("addnp", "P1", "b2"))
    ops.append(("redir", "P3", "P1"))
    ops.append(("commit",))
    set_universe("project")
    try:
        for i in IDENT_PROJECT:
            for v in variants(i):
                ops.append(("probe", i, v[0]))
    finally:
        set_universe("main")
    ops.append(("probe2", "P1", "canonical"))
    return ops


def alphabet_colon():
    ops = []
    for i in IDENT_COLON:
        for b in BODIES:
            ops.append(("add", i, b))
    ops.append(("addnp", "T3", "b2"))
    ops.append(("redir", "T4", "T3"))
    ops.append(("commit",))
    set_universe("colon")
    try:
        for i in IDENT_COLON:
            for v in variants(i):
                ops.append(("probe", i, v[0]))
    finally:
        set_universe("main")
    ops.append(("probe2", "T3", "alias"))
    return ops


def variants(ident):
    title, ns = IDENT[ident]
    out = []
    if ns == 0:
        out = [("exact", title, 0), ("nsnone", title, None), ("mainprefix", "Main:" + title, 0),
               ("underscore", title.replace(" ", "_"), 0), ("lowerfirst", title[0].lower() + title[1:], 0),
               ("wrongcase", title.replace("bar", "Bar"), 0)]
    else:
        prefix, name = title.split(":", 1)
        alias = {"Template": "T", "Module": "MOD", "Wiktionary": "WT", "Wiktionary talk": "Project talk"}[prefix]
        out = [("exact", title, ns), ("nsnone", title, None), ("noprefix", name, ns),
               ("alias", alias + ":" + name, ns), ("lowerprefix", prefix.lower() + ":" + name, ns),
               ("underscore", title.replace(" ", "_"), ns),
               ("lowerfirst", prefix + ":" + name[0].lower() + name[1:], ns),
               ("upperfirst", prefix + ":" + name[0].upper() + name[1:], ns),
               ("wrongcase", prefix + ":" + name.replace("bar", "Bar"), ns)]
        if prefix == "Wiktionary":
            out += [("canonical", "Project:" + name, ns), ("canonical_lower", "project:" + name, ns), ("alias_lower", "wt:" + name, ns),
                    ("canonical_upper", "PROJECT:" + name, ns)]
    seen, uniq = set(), []
    for v in out:
        if (v[1], v[2]) not in seen:
            seen.add((v[1], v[2]))
            uniq.append(v)
    return uniq


def alphabet(tier):
    ops = []
    for i in IDENT:
        for b in BODIES:
            ops.append(("add", i, b))
    ops.append(("addnp", "T1", "b2"))          # add with the prefix omitted
    ops.append(("addnp", "L1", "b1"))
    ops.append(("redir", "T2", "T1"))
    ops.append(("redir", "T1", "T2"))
    ops.append(("redir", "M1", "Bar"))         # redirect to an absent page
    ops.append(("redir", "M1", "T1"))          # redirect into another namespace
    ops.append(("addbad", "surrogate_title"))   # an add the store rejects: the caller survives it, nothing else changes
    ops.append(("commit",))
    ops.append(("reopen",))
    for i in IDENT:
        for v in variants(i):
            ops.append(("probe", i, v[0]))
    ops.append(("probe2", "T1", "exact"))      # through a second context on the same file
    ops.append(("probe2", "M1", "exact"))
    ops.append(("probe", "absent", "x"))
    return ops


# ----------------------------------------------------------------- reference

class Ref:
    def __init__(self):
        self.work = {}
        self.comm = {}

    def add(self, title, ns, body=None, redirect=None, model="wikitext"):
        if ns:
            prefix = NS[ns][0] + ":"
            if not title.startswith(prefix):
                title = prefix + title
        if title.startswith("Main:"):
            title = title[5:]
        self.work[(title, ns)] = {"title": title, "ns": ns, "body": body, "redirect": redirect, "model": model}

    def commit(self):
        self.comm = dict(self.work)

    @staticmethod
    def _lookup(store, title, ns, no_redirect=False):
        t = title.replace("_", " ")
        if t.startswith("Main:"):
            t = t[5:]
        if not t:
            return None
        cands = [t]
        if ns not in (None, 0):
            prefix = NS[ns][0] + ":"
            if not t.startswith(prefix):
                low = t.lower()
                if any(low.startswith(p + ":") for p in NS[ns][1]):
                    t = prefix + t[t.index(":") + 1:]
                else:
                    t = prefix + t
            name = t[len(prefix):]
            cands = [t, prefix + name[:1].upper() + name[1:]]
        for c in cands:
            for (tt, nn), page in store.items():
                if tt == c and (ns is None or nn == ns):
                    if no_redirect and page["redirect"] is not None:
                        continue
                    return page
        return None

    def get(self, store, title, ns):
        return self._lookup(store, title, ns)

    def resolve(self, store, title, ns):
        p = self._lookup(store, title, ns)
        if p is None:
            return None
        if p["redirect"] is not None:
            return self._lookup(store, p["redirect"], ns, True)
        return p

    def freeze(self):
        f = lambda d: tuple(sorted((k, tuple(sorted(v.items(), key=str))) for k, v in d.items()))  # noqa: E731
        return (f(self.work), f(self.comm))


def page_view(p):
    if p is None:
        return None
    if isinstance(p, dict):
        return [p["title"], p["ns"], p["redirect"], p["body"], p["model"]]
    return [p.title, p.namespace_id, p.redirect_to, p.body, p.model]


# ----------------------------------------------------------------- execution

def probe(ctx, ref, store, title, ns, with_expand):
    """Compares all read APIs with the reference; returns list of (oracle, obs, exp)."""
    out = []
    exp = ref.get(store, title, ns)
    got = ctx.get_page(title, ns)
    if page_view(got) != page_view(exp):
        out.append(("get_page", page_view(got), page_view(exp)))
    if ns is not None:
        e2 = exp is not None
        g2 = ctx.page_exists(title, ns)
        if g2 != e2:
            out.append(("page_exists", g2, e2))
    expr = ref.resolve(store, title, ns)
    gotr = ctx.get_page_resolve_redirect(title, ns)
    if page_view(gotr) != page_view(expr):
        out.append(("resolve_redirect", page_view(gotr), page_view(expr)))
    gb = ctx.get_page_body(title, ns)
    eb = None if expr is None else expr["body"]
    if gb != eb:
        out.append(("get_page_body", gb, eb))
    if with_expand and ns == 10:
        name = title
        if ":" in name:
            # {{Template:Foo bar}} / {{T:Foo bar}}: keep the spelled prefix
            pass
        ctx.start_page("Tt")
        ge = ctx.expand("{{" + name + "}}")
        if expr is not None and expr["body"] is not None:
            ee = expr["body"]
        else:
            ee = None   # missing-template rendering is C04's business
        if ee is not None and ge != ee:
            out.append(("expand_transclusion", ge, ee))
        if ee is None and ge in BODIES:
            out.append(("expand_transclusion", ge, "not a stored body"))
    return out


def run_seq(seq, dbdir):
    """Executes one history; returns (violations, states, transitions)."""
    path = os.path.join(dbdir, "p.db")
    for f in os.listdir(dbdir):
        os.remove(os.path.join(dbdir, f))
    ctx = new_ctx(db_path=path)
    ref = Ref()
    viol = []
    states = [ref.freeze()]
    trans = []
    try:
        for step, op in enumerate(seq):
            kind = op[0]
            s0 = states[-1]
            if kind in ("add", "addnp"):
                title, ns = IDENT[op[1]]
                if kind == "addnp":
                    title = title.split(":", 1)[1]
                model = "Scribunto" if ns == 828 else "wikitext"
                ctx.add_page(title, ns, op[2], model=model)
                ref.add(title, ns, op[2], None, model)
            elif kind == "redir":
                title, ns = IDENT[op[1]]
                target = IDENT[op[2]][0] if op[2] in IDENT else op[2]
                ctx.add_page(title, ns, None, redirect_to=target)
                ref.add(title, ns, None, target, "wikitext")
            elif kind == "addbad":
                try:
                    ctx.add_page("Template:Bad\udc00title", 10, "bad")
                    viol.append(("rejected_add_raises", step, "returned", "an exception"))
                except Exception:
                    pass
            elif kind == "commit":
                ctx.db_conn.commit()
                ref.commit()
            elif kind == "reopen":
                ctx.close_db_conn()
                ref.commit()
                ctx = new_ctx(db_path=path)
            elif kind in ("probe", "probe2"):
                if op[1] == "absent":
                    title, ns = "Template:Zed", 10
                else:
                    v = [x for x in variants(op[1]) if x[0] == op[2]][0]
                    title, ns = v[1], v[2]
                if kind == "probe":
                    res = probe(ctx, ref, ref.work, title, ns, True)
                else:
                    c2 = new_ctx(db_path=path)
                    try:
                        res = probe(c2, ref, ref.comm, title, ns, False)
                    finally:
                        c2.close_db_conn()
                for oracle, obs, exp in res:
                    viol.append((oracle, step, obs, exp))
            states.append(ref.freeze())
            trans.append((s0, op))
    finally:
        try:
            ctx.close_db_conn()
        except Exception:
            pass
    return viol, states, trans


def work(payload, skip, report):
    acc = Acc(PROP)
    ops, prefixes, depth = payload[:3]
    universe = payload[3] if len(payload) > 3 else "main"
    set_universe(universe)
    dbdir = scratch_dir("c10")
    st, tr = set(), set()
    i = 0
    for pre in prefixes:
        for rest in itertools.product(ops, repeat=depth - len(pre)):
            seq = list(pre) + list(rest)
            # histories that end in a write observe nothing new
            if seq[-1][0] not in ("probe", "probe2"):
                continue
            report(i)
            i += 1
            viol, states, trans = run_seq(seq, dbdir)
            acc.case()
            for s in states:
                st.add(hash(s))
            for t in trans:
                tr.add(hash(t))
            for oracle, step, obs, exp in viol:
                acc.violation(oracle, {"history": [list(o) for o in seq], "step": step, "universe": universe}, obs, exp)
            if i % 5000 == 1:
                acc.sample([list(o) for o in seq])
    # the lru_cache on get_page keeps every context of this worker alive
    from wikitextprocessor import Wtp
    Wtp.get_page.cache_clear()
    shutil.rmtree(dbdir, ignore_errors=True)
    acc.sets["states"] = st
    acc.sets["transitions"] = tr
    return acc


def replay(case):
    dbdir = scratch_dir("c10r")
    set_universe(case.get("universe", "main"))
    try:
        seq = [tuple(o) for o in case["history"]]
        viol, _, _ = run_seq(seq, dbdir)
    finally:
        shutil.rmtree(dbdir, ignore_errors=True)
    return [{"oracle": o, "observed": ob, "expected": ex} for o, _s, ob, ex in viol]


# Transcluding a stored page is a read: every sequence of reads over pages of three namespaces whose bodies contain inclusion
# tags must leave the lookups (and a repeated transclusion) as they were.
TR_PAGES = [("Foo bar", 0, "a<noinclude>doc</noinclude>b<includeonly>inc</includeonly>"),
            ("Wiktionary:Boiler", 4, "shown<no<includeonly></includeonly>include>[[Category:Docs]]</no<includeonly></includeonly>include>"),
            ("Help:H", 12, "h<noinclude>n</noinclude>"), ("Template:Tp", 10, "t<noinclude>n</noinclude><includeonly>i</includeonly>")]
TR_READS = ["{{:Foo bar}}", "{{Wiktionary:Boiler}}", "{{Help:H}}", "{{Tp}}", "{{Template:Tp}}", "{{PAGESIZE:Wiktionary:Boiler}}",
            "{{PAGESIZE:Foo bar}}", "body:Foo bar:0", "body:Wiktionary:Boiler:4", "body:Wiktionary:Boiler:None", "body:Help:H:12", "body:Tp:10"]


def tr_read(ctx, r):
    if r.startswith("body:"):
        _, rest = r.split(":", 1)
        title, ns = rest.rsplit(":", 1)
        return ctx.get_page_body(title, None if ns == "None" else int(ns))
    ctx.start_page("Tt")
    return ctx.expand(r)


def work_transclude(payload, skip, report):
    acc = Acc(PROP)
    _, firsts, depth = payload
    dbdir = scratch_dir("c10t")

    def fresh():
        for f in os.listdir(dbdir):
            os.remove(os.path.join(dbdir, f))
        c = new_ctx(db_path=os.path.join(dbdir, "p.db"))
        for t, ns, b in TR_PAGES:
            c.add_page(t, ns, b)
        c.db_conn.commit()
        return c

    alone = {}
    for r in TR_READS:
        c = fresh()
        alone[r] = tr_read(c, r)
        c.db_conn.close()
    i = 0
    for f0 in firsts:
        for rest in itertools.product(TR_READS, repeat=depth - 1):
            seq = [f0] + list(rest)
            report(i)
            i += 1
            c = fresh()
            got = [tr_read(c, r) for r in seq]
            c.db_conn.close()
            acc.case()
            acc.count("read_histories")
            want = [alone[r] for r in seq]
            if got != want:
                k = [j for j in range(len(seq)) if got[j] != want[j]][0]
                acc.violation("reads_do_not_change_lookups", {"reads_in_order": seq, "pages": [list(x) for x in TR_PAGES]},
                              {"read": seq[k], "got": got[k]}, want[k])
    shutil.rmtree(dbdir, ignore_errors=True)
    type(c).get_page.cache_clear()
    return acc


def main(run):
    ops = alphabet(run.tier)
    maxdepth = 3 if run.tier == "quick" else 4
    chunks = []
    for depth in range(1, maxdepth + 1):
        if depth == 1:
            chunks.append((ops, [()], 1))
        elif depth <= 3:
            for o in ops:
                chunks.append((ops, [(o,)], depth))
        else:
            for o1 in ops:
                for o2 in ops:
                    chunks.append((ops, [(o1, o2)], depth))
    cops = alphabet_colon()
    for depth in range(1, (2 if run.tier == "quick" else 3) + 1):
        if depth == 1:
            chunks.append((cops, [()], 1, "colon"))
        else:
            for o in cops:
                chunks.append((cops, [(o,)], depth, "colon"))
    pops = alphabet_project()
    for depth in range(1, (2 if run.tier == "quick" else 3) + 1):
        if depth == 1:
            chunks.append((pops, [()], 1, "project"))
        else:
            for o in pops:
                chunks.append((pops, [(o,)], depth, "project"))
    # biggest chunks first
    chunks.sort(key=lambda c: -(len(c[0]) ** (c[2] - len(c[1][0]))))
    tchunks = [("transclude", [r], 2 if run.tier == "quick" else 3) for r in TR_READS]
    for cid, acc, hung in run_chunks(work_transclude, tchunks, nproc=run.nproc, case_timeout=60):
        run.acc.merge(acc)
    done = 0
    for cid, acc, hung in run_chunks(work, chunks, nproc=run.nproc, case_timeout=60):
        run.acc.merge(acc)
        done += 1
        if done % 200 == 0:
            run.log("chunks", done, "/", len(chunks), "histories", run.acc.n)
    states = len(run.acc.sets.pop("states", ()))
    trans = len(run.acc.sets.pop("transitions", ()))
    cov = {
        "states": states,
        "transitions": trans,
        "traces_validated_against_impl": run.acc.n,
        "distinct_nontrivial": states,
        "rule": "all operation sequences of length <= %d over a %d-operation alphabet (adds of 4 colliding identities x 2 bodies, "
                "prefix-less adds, 3 redirects, commit, reopen, probes of every spelling variant of every identity, probes through "
                "a second context) that end in a probe; each on a fresh real Wtp with a file database; states = distinct "
                "(working, committed) contents of the dict reference model, transitions = distinct (state, op) pairs; every "
                "probe compares get_page / page_exists / get_page_resolve_redirect / get_page_body / expand({{t}}) with the reference; "
                "plus all sequences of length <= %d over a %d-operation alphabet on a second universe of 3 identities whose names contain a colon, "
                "and over a %d-operation alphabet on a third universe in the project namespace (local name Wiktionary, canonical name Project, alias WT) and its talk namespace"
                % (maxdepth, len(ops), 2 if run.tier == "quick" else 3, len(cops), len(pops)),
        "alphabet": [list(o) for o in ops],
        "exhaustive": True,
        "bound": "history length <= %d" % maxdepth,
    }
    assumptions = [
        "lookups with namespace_id=None are only probed with the exact stored title (by design a bare title is not resolvable without the namespace)",
        "bodies contain no inclusion tags, so the template-body reduction is the identity (C04/C12 cover it)",
        "SQLite UNION ALL ... LIMIT 1 returns rows of the first arm first (exact spelling wins over upper-cased first letter)",
    ]
    return run.finish(cov, assumptions, replay_fn=replay)
