"""C07  Every Lua invocation is stopped by its time limit and the context stays usable.

Bounded exhaustive exploration over program shapes x histories: every
combination of a non-terminating Lua body, a wrapper (none, pcall, xpcall,
pcall inside an outer loop, nested pcall, looping error handler, coroutine if
obtainable) and a position (function body / module top level) is invoked with
timeout=1 on a real context, followed by every history of further invocations
from {benign, raising, timing-out} up to the bound.  Each program runs in a pool
worker whose watchdog kills it if expand() does not come back.
"""
from __future__ import annotations

import itertools
import time

from ..fixtures import close_ctx, new_ctx
from ..pool import run_chunks
from ..runner import Acc

PROP = "C07"
LEVEL = "exploration"
LIMIT = 1          # configured limit (seconds)
SLACK = 2.5        # whole-second os.time() granularity + hook interval
TIMEOUT_ELEMENT = "Lua timeout error"

BODIES = {
    "while": "while true do end",
    "repeat": "repeat until false",
    "string_rep": "local s = '' while true do s = string.rep('x', 10) end",
    "table_insert": "local t = {} while true do table.insert(t, 1) if #t > 1000 then t = {} end end",
    "preprocess_plain": "while true do frame:preprocess('plain') end",
    # a loop around an EXPENSIVE host call: few VM instructions per round, most of the time spent outside the VM
    "preprocess_heavy": "local t = string.rep('{{c07h|A}} ', 8) while true do frame:preprocess(t) end",
    "preprocess_invoke": "while true do frame:preprocess('{{#invoke:c07aux|ok}}') end",
    "after_nested_invoke": "frame:preprocess('{{#invoke:c07aux|ok}}') while true do end",
    "nested_in_parserfn": "frame:preprocess('{{#if:1|{{#invoke:c07aux|slow}}}}') return 'after'",
    "loop_nested_in_parserfn": "while true do frame:preprocess('{{#if:1|{{#invoke:c07aux|ok}}}}') end",
    "nested_in_template_arg": "frame:expandTemplate{title='c07t', args={'{{#invoke:c07aux|slow}}'}} while true do end",
    "nested_inner_loop": "frame:preprocess('{{#invoke:c07aux|slow}}') return 'after'",
    "tail_recursion": "local function f() return f() end f()",
    "mutual_recursion": "local a, b; a = function() return b() end; b = function() return a() end; a()",
    # recursion THROUGH pcall, in a loop: the recursion ends at the C-call limit with an ordinary error that the pcall one
    # level up swallows, and nearly all instructions run at that depth
    "pcall_recursion_in_loop": "local function f() while true do pcall(f) end end f()",
    "xpcall_recursion_in_loop": "local function f() while true do xpcall(f, function(e) return e end) end end f()",
    "clear_hook": "if _lua_clear_timeout_hook then _lua_clear_timeout_hook() end while true do end",
    "rearm_hook": "if _lua_set_timeout then _lua_set_timeout(50) end while true do end",
    "clear_hook_in_loop": "while true do if _lua_clear_timeout_hook then _lua_clear_timeout_hook() end end",
}
WRAPPERS = {
    "none": "%s",
    "pcall": "pcall(function() %s end)",
    "xpcall": "xpcall(function() %s end, function(e) return e end)",
    "pcall_in_loop": "while true do pcall(function() %s end) end",
    "pcall_pcall": "pcall(pcall, function() %s end)",
    "looping_handler": "xpcall(function() %s end, function(e) while true do end end)",
    "coroutine": "if coroutine then local co = coroutine.create(function() %s end) coroutine.resume(co) else %s end",
    "pcall_then_loop": "pcall(function() %s end) while true do end",
}
QUICK = [("while", "none"), ("while", "pcall"), ("while", "xpcall"), ("while", "pcall_in_loop"), ("repeat", "pcall_pcall"),
         ("string_rep", "none"), ("table_insert", "pcall"), ("preprocess_plain", "none"), ("preprocess_invoke", "none"),
         ("after_nested_invoke", "none"), ("tail_recursion", "pcall"), ("mutual_recursion", "none"), ("clear_hook", "none"),
         ("rearm_hook", "none"), ("clear_hook_in_loop", "pcall"), ("while", "looping_handler"), ("while", "coroutine"),
         ("while", "pcall_then_loop"), ("preprocess_plain", "pcall_in_loop"), ("after_nested_invoke", "pcall"),
         ("pcall_recursion_in_loop", "none"), ("xpcall_recursion_in_loop", "pcall"), ("preprocess_heavy", "none"),
         ("preprocess_heavy", "pcall_in_loop")]

AUX = """
local e = {}
function e.ok(frame) return "ok" .. (frame.args[1] or "") end
function e.raise(frame) error("boom") end
function e.slow(frame) while true do end end
function e.guarded(frame) local ok = pcall(error, "boom") return ok and "bad" or "caught" end
function e.fname(frame) return "run" end
function e.sum(frame) local s = 0 for i = 1, tonumber(frame.args[1]) do s = s + i end return "sum" .. s end
return e
"""
FOLLOW = {"benign": "{{#invoke:c07aux|ok|z}}", "raising": "{{#invoke:c07aux|raise}}", "timing_out": "{{#invoke:c07aux|slow}}",
          "guarded": "{{#invoke:c07aux|guarded}}",
          # finishes well inside the limit but runs long enough (millions of VM instructions) for the limit's hook to fire:
          # a deadline must be counted from the start of this invocation
          "benign_long": "{{#invoke:c07aux|sum|400000}}",
          "benign_require": "{{#invoke:c07work|checksum|size=10}}",
          # invocations that fail on the Python side of the bridge (module name too long for the file system; a lone surrogate
          # that cannot be encoded for Lua): in-band failure, and the time limit keeps working afterwards
          "python_oserror": "{{#invoke:" + "x" * 5000 + "|ok}}", "python_unicode": "{{#invoke:c07aux\ud800|ok}}"}


# how the non-terminating function is invoked: plainly, or with its function name / an argument name computed by another
# (benign) invocation, which runs and finishes before the outer call starts
INVOCATION = {
    "function": "a{{#invoke:c07prog|run}}b",
    "toplevel": "a{{#invoke:c07prog|run}}b",
    "function_name_from_invoke": "a{{#invoke:c07prog|{{#invoke:c07aux|fname}}}}b",
    "function_argname_from_invoke": "a{{#invoke:c07prog|run|{{#invoke:c07aux|ok|k}}=v}}b",
    "function_inside_argument_of_invoke": "a{{#invoke:c07aux|ok|{{#invoke:c07prog|run}}}}b",
    # (the generated program is not used here: the non-terminating part is the load of Module:utilities)
    "load_of_required_module": "a{{#invoke:c07work|checksum|size=10000000000000}}b",
}


# a module under a name the sandbox keeps loaded across invocations, whose LOADING runs as long as the frame says; it is
# require()d by another module (the time limit can hit in the middle of the load)
UTILITIES = """
local n = tonumber(mw.getCurrentFrame().args.size) or 10
local s = 0
local i = 0
while i < n do i = i + 1 s = s + i end
return { sum = s }
"""
WORK = "local e = {}\nfunction e.checksum(frame) local u = require('Module:utilities') return 'sum=' .. u.sum end\nreturn e\n"


def add_aux(ctx):
    ctx.add_page("Module:c07aux", 828, AUX, model="Scribunto")
    ctx.add_page("Module:utilities", 828, UTILITIES, model="Scribunto")
    ctx.add_page("Module:c07work", 828, WORK, model="Scribunto")
    ctx.add_page("Template:c07h", 10, "{{#if:{{{1|}}}|[{{{1}}}]|none}}{{#switch:{{{1}}}|A=a|B=b|#default=d}}{{lc:{{{1}}}}}")


def module_text(body, wrapper, position):
    if position.startswith("function_") or position == "load_of_required_module":
        position = "function"
    if position.startswith("function_"):
        position = "function"
    w = WRAPPERS[wrapper]
    code = w % ((BODIES[body],) * w.count("%s"))
    # (the body sits in a block of its own: a body that ends in "return ..." is only legal Lua as the last statement of a block)
    if position == "function":
        return "local e = {}\nfunction e.run(frame)\ndo " + code + " end\nreturn 'survived'\nend\nreturn e\n"
    return "local e = {}\nlocal frame = mw.getCurrentFrame()\ndo " + code + " end\nfunction e.run(frame) return 'survived' end\nreturn e\n"


def fresh_results():
    ctx = new_ctx(lua=True)
    add_aux(ctx)
    out = {}
    for k in ("benign", "raising", "guarded", "benign_long", "benign_require"):
        ctx.start_page("Tt")
        out[k] = ctx.expand(FOLLOW[k], timeout=LIMIT)
    close_ctx(ctx)
    return out


def work(payload, skip, report):
    acc = Acc(PROP)
    body, wrapper, position, follow = payload[:4]
    LIMIT = payload[4] if len(payload) > 4 else globals()["LIMIT"]     # the configured limit of this chunk (seconds)
    case = {"body": body, "wrapper": wrapper, "position": position, "followed_by": list(follow), "limit": LIMIT,
            "lua": module_text(body, wrapper, position)[:300]}
    if 0 in skip:
        acc.case()
        acc.violation("aborted_within_bound", case, "expand() did not return within the watchdog (12 s); worker killed", "returns within %.1f s" % (LIMIT + SLACK))
        return acc
    fresh = fresh_results()
    report(0)
    ctx = new_ctx(lua=True)
    add_aux(ctx)
    ctx.add_page("Module:c07prog", 828, module_text(body, wrapper, position), model="Scribunto")
    ctx.add_page("Template:c07t", 10, "[{{#if:1|{{{1|}}}}}]")
    ctx.start_page("Tt")
    before = list(ctx.expand_stack)
    t0 = time.time()
    try:
        res = ctx.expand(INVOCATION[position], timeout=LIMIT)
    except Exception as e:
        res = "EXC " + type(e).__name__ + ": " + str(e)[:100]
    dt = time.time() - t0
    if LIMIT + SLACK < dt < LIMIT + SLACK + 6:
        # a small overshoot can be scheduling delay on a loaded machine: measure once more on a fresh context and keep the
        # smaller time (a real defect overshoots every time)
        ctx2 = new_ctx(lua=True)
        add_aux(ctx2)
        ctx2.add_page("Module:c07prog", 828, module_text(body, wrapper, position), model="Scribunto")
        ctx2.add_page("Template:c07t", 10, "[{{#if:1|{{{1|}}}}}]")
        ctx2.start_page("Tt")
        t1 = time.time()
        try:
            ctx2.expand(INVOCATION[position], timeout=LIMIT)
        except Exception:
            pass
        dt = min(dt, time.time() - t1)
        close_ctx(ctx2)
    acc.case()
    acc.distinct("programs", [body, wrapper, position])
    finished_early = dt < LIMIT * 0.9 and LIMIT >= 1     # (the clock counts whole seconds: a sub-second limit may fire at once)
    if dt > LIMIT + SLACK:
        acc.violation("aborted_within_bound", case, "returned after %.1f s" % dt, "<= %.1f s" % (LIMIT + SLACK))
    if res.startswith("EXC "):
        acc.violation("no_exception", case, res, "in-band element")
    elif not finished_early and TIMEOUT_ELEMENT not in res:
        acc.violation("timeout_element_in_output", case, res[:200], "an element containing %r" % TIMEOUT_ELEMENT)
    if list(ctx.expand_stack) != before:
        acc.violation("expansion_path_restored", case, list(ctx.expand_stack)[:8], before)
    for k in follow:
        t0 = time.time()
        try:
            r2 = ctx.expand(FOLLOW[k], timeout=LIMIT)
        except Exception as e:
            r2 = "EXC " + type(e).__name__
        dt2 = time.time() - t0
        acc.case()
        if k.startswith("python_"):
            if r2.startswith("EXC") or dt2 > LIMIT + SLACK:
                acc.violation("context_usable_afterwards", case, {"follow_up": k, "result": r2[:120], "seconds": round(dt2, 1)},
                              "an in-band error element")
        elif k == "timing_out":
            if dt2 > LIMIT + SLACK or TIMEOUT_ELEMENT not in r2:
                acc.violation("context_usable_afterwards", case, {"follow_up": k, "result": r2[:120], "seconds": round(dt2, 1)},
                              "timeout element within bound")
        elif r2 != fresh[k] or dt2 > LIMIT + SLACK:
            acc.violation("context_usable_afterwards", case, {"follow_up": k, "result": r2[:120], "seconds": round(dt2, 1)}, fresh[k][:120])
    acc.sample({"body": body, "wrapper": wrapper, "position": position, "seconds": round(dt, 2), "result": res[:80]})
    close_ctx(ctx)
    return acc


def main(run):
    q = run.tier == "quick"
    chunks = []
    if q:
        for b, w in QUICK:
            chunks.append((b, w, "function", ("benign", "benign_long")))
        for b, w in QUICK[:6]:
            chunks.append((b, w, "toplevel", ("benign_long", "raising")))
        for b in ("nested_inner_loop", "preprocess_invoke", "after_nested_invoke", "nested_in_parserfn", "loop_nested_in_parserfn",
                  "nested_in_template_arg"):
            chunks.append((b, "none", "function", ("guarded", "timing_out", "benign")))
            chunks.append((b, "pcall", "function", ("timing_out", "guarded")))
        for pos in ("function_name_from_invoke", "function_argname_from_invoke", "function_inside_argument_of_invoke"):
            chunks.append(("while", "none", pos, ("benign",)))
            chunks.append(("while", "pcall", pos, ("benign_long",)))
        # other limits than 1 s: below a second, fractional, two seconds
        for lim in (0.5, 0.25, 1.5, 2):
            chunks.append(("while", "none", "function", ("benign",), lim))
            chunks.append(("while", "pcall", "function", ("benign_long",), lim))
        chunks.append(("while", "none", "load_of_required_module", ("benign_require", "benign")))
        chunks.append(("while", "none", "function", ("benign_require", "timing_out", "benign_require")))
        chunks.append(("while", "none", "function", ("python_oserror", "timing_out", "benign")))
        chunks.append(("while", "pcall", "function", ("python_unicode", "timing_out", "guarded")))
        chunks.append(("nested_inner_loop", "none", "function", ("python_oserror", "timing_out")))
    else:
        hist = [()] + [(a,) for a in FOLLOW] + list(itertools.product(FOLLOW, repeat=2))
        k = 0
        for b, w, pos in itertools.product(BODIES, WRAPPERS, ("function", "toplevel")):
            chunks.append((b, w, pos, hist[k % len(hist)]))
            chunks.append((b, w, pos, hist[(k + 5) % len(hist)]))
            k += 1
        for h in hist:
            chunks.append(("while", "none", "function", h))
            chunks.append(("while", "pcall", "function", h))
        for lim in (0.02, 0.25, 0.5, 0.99, 1.5, 2, 3):
            for b, w in (("while", "none"), ("while", "pcall"), ("while", "xpcall"), ("nested_inner_loop", "none"), ("tail_recursion", "pcall")):
                if b in BODIES and w in WRAPPERS:
                    chunks.append((b, w, "function", ("benign", "timing_out"), lim))
        for pos in ("function_name_from_invoke", "function_argname_from_invoke", "function_inside_argument_of_invoke"):
            for b, w in itertools.product(("while", "nested_inner_loop", "preprocess_invoke"), ("none", "pcall", "xpcall")):
                if w in WRAPPERS and b in BODIES:
                    chunks.append((b, w, pos, ("benign", "timing_out")))
    if not q:
        for fo in (("benign_require",), ("benign_require", "benign"), ("timing_out", "benign_require"), ("raising", "benign_require")):
            chunks.append(("while", "none", "load_of_required_module", fo))
    for cid, acc, hung in run_chunks(work, chunks, nproc=run.nproc, case_timeout=12):
        run.acc.merge(acc)
    cov = {
        "distinct_nontrivial": len(run.acc.sets.get("programs", ())),
        "rule": "programs = non-terminating body (%d shapes: tight loops, loops calling library functions / frame:preprocess / a nested "
                "#invoke, recursion, attempts to clear or re-arm the timeout hook) x wrapper (%d: none, pcall, xpcall, pcall in an outer "
                "loop, nested pcall, looping error handler, coroutine if obtainable, pcall followed by a loop) x position (function "
                "body, module top level)%s, each invoked with timeout=1 and followed by histories over {benign, long benign, raising, guarded, timing-out, failing on the Python side}%s; "
                "distinct = distinct programs." % (len(BODIES), len(WRAPPERS), " (quick: 26 selected programs)" if q else "",
                                                   "" if q else " of length 0..2 (all 13 histories on two base programs, rotating over the rest)"),
        "exhaustive": not q,
        "bound": "limit 1 s, must return within %.1f s; pool watchdog 12 s" % (LIMIT + SLACK),
    }
    assumptions = [
        "wall-clock based: the hook uses whole-second os.time(), so the bound is limit + 2.5 s",
        "a program that ends early with a Lua error (e.g. calling a helper that is not visible) has finished and is only required to leave the context usable",
    ]
    return run.finish(cov, assumptions, replay_fn=None)
