"""C13  Selective expansion expands exactly the selected templates and honours the hooks.

Bounded exhaustive exploration: every configuration (templates_to_expand x
templates_to_not_expand x pre_expand x expand_parserfns x expand_invoke x
template_fn x post_template_fn) x every page of the expansion grammar up to a
size bound, on a fixed 4-template library (one flagged need_pre_expand, one
calling another, one missing), against the C04 reference evaluator extended
with the selection rule and the hooks.
"""
from __future__ import annotations

import itertools

from ..fixtures import close_ctx, new_ctx
from ..pool import run_chunks
from ..ref_expand import Grammar, addnl, canon_key, render
from ..runner import Acc

PROP = "C13"
LEVEL = "exploration"

LIBTEXT = {
    "s": ("S[{{{1|}}}]", True),
    "u": ("U[{{{1|}}}]", False),
    "w": ("W{{u|{{{1|}}}}}", False),
    "v": ("V{{s|{{{k|}}}}}", False),
    "f": ("F{{u|{{{1|}}}}}", True),
    "e0": ("{{{1|}}}", False),     # expands to nothing when called without argument
    "br": ("{{#if:1|[x] {{{1|}}}|}}", False),   # square brackets that are not a link, produced by a parser function
}
# the same bodies as ASTs for the reference
LIBAST = {
    "s": ("SEQ", [("T", "S["), ("P", "1", ("T", "")), ("T", "]")]),
    "u": ("SEQ", [("T", "U["), ("P", "1", ("T", "")), ("T", "]")]),
    "w": ("SEQ", [("T", "W"), ("C", "u", [(None, ("P", "1", ("T", "")))])]),
    "v": ("SEQ", [("T", "V"), ("C", "s", [(None, ("P", "k", ("T", "")))])]),
    "f": ("SEQ", [("T", "F"), ("C", "u", [(None, ("P", "1", ("T", "")))])]),
    "e0": ("P", "1", ("T", "")),
    "br": ("IF", ("T", "1"), ("SEQ", [("T", "[x] "), ("P", "1", ("T", ""))]), ("T", "")),
}
FLAGGED = {"s", "f"}
SETS_EXPAND = [None, [], ["u"], ["w"], ["u", "w"], ["v"], ["e0", "u"], ["br", "u"]]
SETS_NOT = [None, [], ["s", "f"], ["u"], ["s", "u", "f"], ["s"]]
HOOKS = ["none", "ret_none", "mark_u", "mark_all"]


def configs(tier):
    out = []
    for te, tn, pre, pf, hook, phook in itertools.product(SETS_EXPAND, SETS_NOT, (True, False), (True, False), HOOKS, HOOKS):
        if tier == "quick" and (hook, phook) not in (("none", "none"), ("mark_u", "none"), ("none", "mark_all"),
                                                     ("ret_none", "ret_none"), ("mark_all", "mark_u")):
            continue
        out.append({"templates_to_expand": te, "templates_to_not_expand": tn, "pre_expand": pre,
                    "expand_parserfns": pf, "template_fn": hook, "post_template_fn": phook})
        # the same selection on a context that is not en.wiktionary: there the body of a flagged template is expanded in
        # full (documented special case in expand()); everything else follows the same rule
        if (hook, phook) in (("none", "none"), ("mark_all", "mark_u")):
            out.append(dict(out[-1], ctx="wikipedia"))
    return out


def selected(cfg, name):
    if name not in LIBAST:
        return False
    te, tn = cfg["templates_to_expand"], cfg["templates_to_not_expand"]
    if tn is not None and name in tn:
        return False
    return name in FLAGGED or (te is not None and name in te)


def hook_result(kind, name):
    if kind == "mark_u":
        return "M[u]" if name == "u" else None
    if kind == "mark_all":
        return "M[" + name + "]"
    return None


class Ref:
    """Reference evaluation under a selection.  variant: 'strict' (statement) |
    'pf_args_all' (arguments of an expanded parser function are expanded completely) |
    'pf_raw' (a disabled parser function is re-emitted with untouched arguments)."""

    def __init__(self, cfg, variant):
        self.cfg, self.variant = cfg, variant
        self.tf_calls = []
        self.ptf_calls = []

    def ev(self, e, frame, all_):
        t = e[0]
        if t == "T":
            return e[1]
        if t == "SEQ":
            return "".join(self.ev(x, frame, all_) for x in e[1])
        if t == "P":
            key = canon_key(e[1])
            if frame is not None and key in frame:
                return frame[key]
            if e[2] is not None:
                return self.ev(e[2], frame, all_)
            return "{{{" + str(key) + "}}}"
        if t in ("IF", "IFEQ", "SW", "SWG"):
            return self.ctl(e, frame, all_)
        name = e[1]
        if not (all_ or selected(self.cfg, name)):
            vals = [(k, self.ev(v, frame, all_)) for k, v in e[2]]
            return "{{" + name + "".join("|" + ((k + "=") if k is not None else "") + v for k, v in vals) + "}}"
        # values consumed by an expanded construct are complete expansions
        vals = [(k, self.ev(v, frame, True)) for k, v in e[2]]
        args = {}
        num = 1
        for k, v in vals:
            if k is None:
                args[num] = v
                num += 1
            else:
                args[canon_key(k)] = v.strip()
        res = None
        if self.cfg["template_fn"] != "none":
            self.tf_calls.append((name, tuple(sorted(args.items(), key=str))))
            res = hook_result(self.cfg["template_fn"], name)
        if res is None:
            if name not in LIBAST:
                res = "[[:Template:" + name + "]]"
            else:
                res = self.ev(LIBAST[name], args, all_ or (name in FLAGGED and self.cfg.get("ctx") == "wikipedia"))
        res = addnl(res)
        if self.cfg["post_template_fn"] != "none":     # also for an empty expansion
            self.ptf_calls.append((name, tuple(sorted(args.items(), key=str)), res))
            r2 = hook_result(self.cfg["post_template_fn"], name)
            if r2 is not None:
                res = r2
        return res

    def ctl(self, e, frame, all_):
        """Parser functions.  The first argument belongs to the name segment and is expanded under the
        selection; the remaining arguments are consumed by the function and therefore expanded completely.
        A disabled parser function is re-emitted like an unselected template: arguments processed under the selection."""
        t = e[0]
        first = self.ev(e[1], frame, all_)
        if not self.cfg["expand_parserfns"]:
            sub = lambda x: self.ev(x, frame, all_)  # noqa: E731
            if t == "IF":
                rest, head = [sub(e[2]), sub(e[3])], "#if"
            elif t == "IFEQ":
                rest, head = [sub(e[2]), sub(e[3]), sub(e[4])], "#ifeq"
            elif t == "SWG":
                rest, head = list(e[2][:-1]) + [e[2][-1] + "=" + sub(e[3]), sub(e[4])], "#switch"
            else:
                rest, head = [e[2] + "=" + sub(e[3]), "#default=" + sub(e[4])], "#switch"
            if self.variant != "keep_blank":
                first = first.strip()   # the name segment is stripped before the call is re-emitted
            return "{{" + head + ":" + "|".join([first] + rest) + "}}"
        if t == "IF":
            return addnl(self.ev(e[2] if first.strip() else e[3], frame, True).strip())
        if t == "IFEQ":
            y = self.ev(e[2], frame, True).strip()
            return addnl(self.ev(e[3] if first.strip() == y else e[4], frame, True).strip())
        if t == "SWG":
            return addnl(self.ev(e[3] if first.strip() in [x.strip() for x in e[2]] else e[4], frame, True).strip())
        return addnl(self.ev(e[3] if e[2].strip() == first.strip() else e[4], frame, True).strip())


def make_ctx(kind=None):
    ctx = new_ctx(project="wikipedia") if kind == "wikipedia" else new_ctx()
    for n, (b, flag) in LIBTEXT.items():
        ctx.add_page("Template:" + n, 10, b, need_pre_expand=flag)
    ctx.db_conn.commit()
    return ctx


def run_real(ctx, text, cfg):
    tf_calls, ptf_calls = [], []

    def tf(name, args):
        tf_calls.append((name, tuple(sorted(args.items(), key=str))))
        return hook_result(cfg["template_fn"], name)

    def ptf(name, args, expansion):
        ptf_calls.append((name, tuple(sorted(args.items(), key=str)), expansion))
        return hook_result(cfg["post_template_fn"], name)

    ctx.start_page("Tt")
    te, tn = cfg["templates_to_expand"], cfg["templates_to_not_expand"]
    out = ctx.expand(text, pre_expand=cfg["pre_expand"],
                     template_fn=tf if cfg["template_fn"] != "none" else None,
                     post_template_fn=ptf if cfg["post_template_fn"] != "none" else None,
                     templates_to_expand=None if te is None else set(te),
                     templates_to_not_expand=None if tn is None else set(tn),
                     expand_parserfns=cfg["expand_parserfns"])
    return out, tf_calls, ptf_calls


def check(ctx, page, cfg):
    text = render(page)
    try:
        got, tfc, ptfc = run_real(ctx, text, cfg)
    except Exception as e:
        return text, [("no_exception", type(e).__name__ + ": " + str(e)[:100], "returns")]
    all_ = not cfg["pre_expand"]
    out = []
    strict = Ref(cfg, "strict")
    want = strict.ev(page, None, all_)
    if got != want:
        oracle = "selective_expand_equals_reference"
        out.append((oracle, got, want))
    if not out or out[0][0] != "selective_expand_equals_reference":
        if sorted(tfc, key=str) != sorted(strict.tf_calls, key=str):
            out.append(("template_fn_once_per_expanded_call", sorted(tfc, key=str), sorted(strict.tf_calls, key=str)))
        if sorted(ptfc, key=str) != sorted(strict.ptf_calls, key=str):
            out.append(("post_template_fn_sees_default_expansion", sorted(ptfc, key=str), sorted(strict.ptf_calls, key=str)))
    # identity when nothing is selected and parser functions are off
    nothing = cfg["pre_expand"] and not cfg["expand_parserfns"] and not any(
        selected(cfg, n) for n in LIBAST)
    if nothing and "{{{" not in text and got != text:
        out.append(("identity_when_nothing_selected", got, text))
    return text, out


def pages(tier):
    callees = ["s", "u", "w"]
    out = []
    if tier == "quick":
        g = Grammar(["x"], ["1"], [None, "k"], control=True)
        gb = Grammar([" x "], ["1"], [None, " k "], control=True)
        for size in (1, 2):
            out += g.exprs(size, False, callees)
        out += g.exprs(3, False, ["s", "u"])
        for size in (1, 2):
            out += gb.exprs(size, False, ["s", "u"])
    else:
        g = Grammar(["x", " x "], ["1"], [None, "k"], control=True)
        for size in (1, 2, 3):
            out += g.exprs(size, False, callees)
    if tier != "quick":
        # size-4 pages: control flow and one-argument calls over all four library templates (no sequences)
        g2 = Grammar(["x"], ["1"], [None, "k"], control=True, maxargs=1)
        out += g2.exprs(4, False, ["s", "u", "w", "v"], seq=False)
    else:
        g2 = Grammar(["x"], [], [None], control=True, maxargs=1)
        out += g2.exprs(4, False, ["s", "u"], seq=False)
    hand = [
        ("IF", ("T", "1"), ("C", "u", [(None, ("T", "4"))]), ("T", "n")),
        ("IF", ("C", "s", []), ("T", "y"), ("T", "n")),
        ("C", "u", [(None, ("IF", ("T", "1"), ("C", "s", [(None, ("T", "q"))]), ("T", "")))]),
        ("C", "v", [("k", ("C", "u", [(None, ("T", "a"))]))]),
        ("C", "w", [(None, ("C", "s", []))]),
        ("P", "arg", ("C", "u", [(None, ("T", "5"))])),
        ("SW", ("C", "u", []), "x", ("C", "s", []), ("C", "w", [])),
        ("C", "e0", []),
        ("SEQ", [("C", "e0", []), ("C", "u", [(None, ("T", "a"))])]),
        ("C", "e0", [(None, ("T", "q"))]),
        ("C", "u", [(None, ("C", "e0", []))]),
        ("C", "f", [(None, ("T", "z"))]),
        ("SEQ", [("C", "f", [(None, ("T", "z"))]), ("C", "u", [(None, ("T", "a"))])]),
        ("SEQ", [("C", "u", [(None, ("T", "a"))]), ("C", "f", []), ("C", "w", [(None, ("T", "b"))])]),
        ("SEQ", [("C", "s", []), ("C", "u", [(None, ("T", "a"))]), ("C", "w", [])]),
        ("C", "w", [(None, ("SEQ", [("C", "f", []), ("C", "u", [])]))]),
        # the same argument-less call in a position that is expanded completely (argument of an expanded call, parser-function
        # branch) and in a position that follows the selection, in both orders
        ("SEQ", [("C", "s", [(None, ("C", "w", []))]), ("T", " "), ("C", "w", [])]),
        ("SEQ", [("C", "w", []), ("T", " "), ("C", "s", [(None, ("C", "w", []))])]),
        ("SEQ", [("IF", ("T", "1"), ("C", "w", []), ("T", "")), ("T", " "), ("C", "w", [])]),
        ("SEQ", [("C", "v", []), ("T", " "), ("C", "u", [(None, ("C", "v", []))])]),
        ("SEQ", [("C", "f", []), ("C", "s", [(None, ("C", "f", []))]), ("C", "f", [])]),
        # square brackets that are not a link: in the expansion a hook sees, in an argument value and in an argument name
        ("C", "br", []), ("C", "br", [(None, ("T", "[y]"))]), ("C", "u", [(None, ("C", "br", []))]),
        ("C", "u", [("[a]", ("T", "b"))]), ("SEQ", [("C", "br", []), ("T", " [z] "), ("C", "u", [(None, ("T", "[w]"))])]),
        ("IF", ("T", " x "), ("T", "y"), ("T", "n")),
        ("C", "u", [(None, ("IF", ("T", " 1"), ("C", "s", [(None, ("T", "q"))]), ("T", "")))]),
    ]
    return out + hand


INVOKE_PAGES = [
    # text, expected with expand_invoke=True, expected with expand_invoke=False, template_fn calls (names)
    ("{{#invoke:m|f|x}}", "L(x)", "{{#invoke:m|f|x}}", []),
    ("{{wrap|x}} {{wrap|y}}", "<L(x)> <L(y)>", "<{{#invoke:m|f|x}}> <{{#invoke:m|f|y}}>", ["wrap", "wrap"]),
    ("{{box|{{#invoke:m|f}}}}{{box|b}}", "[L()][b]", "[{{#invoke:m|f}}][b]", ["box", "box"]),
    ("{{wrap|{{box|q}}}}{{wrap|z}}", "<L([q])><L(z)>", "<{{#invoke:m|f|[q]}}><{{#invoke:m|f|z}}>", ["box", "wrap", "wrap"]),
    ("{{#invoke:m|f|{{box|q}}}}", "L([q])", "{{#invoke:m|f|[q]}}", ["box"]),
    ("{{#invoke:m|f|k={{box|q}}|{{box|r}}}} {{box|s}}", "L([r]) [s]", "{{#invoke:m|f|k=[q]|[r]}} [s]", ["box", "box", "box"]),
    ("{{#if:1|{{wrap|a}}}}{{wrap|b}}", "<L(a)><L(b)>", "<{{#invoke:m|f|a}}><{{#invoke:m|f|b}}>", ["wrap", "wrap"]),
]


def work_invoke(payload, skip, report):
    """expand_invoke switch: #invoke inside template bodies / arguments, sibling calls, repeated calls on one page."""
    from ..fixtures import add_ustring

    acc = Acc(PROP)
    ctx = new_ctx(lua=True)
    ctx.add_page("Module:m", 828, "local e = {} function e.f(frame) return 'L(' .. (frame.args[1] or '') .. ')' end return e",
                 model="Scribunto")
    ctx.add_page("Template:wrap", 10, "<{{#invoke:m|f|{{{1|}}}}}>")
    ctx.add_page("Template:box", 10, "[{{{1|}}}]")
    ctx.db_conn.commit()
    i = 0
    for text, want_t, want_f, names in INVOKE_PAGES:
        for inv, pre, hook, reps in itertools.product((True, False), (False, True), (False, True), (1, 3)):
            report(i)
            i += 1
            calls = []

            def tf(name, args):
                calls.append(name)
                return None

            case = {"page": text, "config": {"expand_invoke": inv, "pre_expand": pre, "template_fn": hook, "calls_on_same_page": reps}}
            ctx.start_page("Tt")
            acc.case()
            want = want_t if inv else want_f
            for r in range(reps):
                del calls[:]
                try:
                    got = ctx.expand(text, expand_invoke=inv, pre_expand=pre, templates_to_expand={"wrap", "box"} if pre else None,
                                     template_fn=tf if hook else None)
                except Exception as e:
                    got = "EXC " + type(e).__name__
                if got != want:
                    acc.violation("expand_invoke_switch", case, {"call": r + 1, "got": got}, want)
                    break
                if hook and sorted(calls) != sorted(names):
                    # known finding: arguments of an executed #invoke are expanded lazily through frame:preprocess(), a nested
                    # expand() that does not know the hooks of the outer call
                    lazy = inv and text.startswith("{{#invoke:m|f|") and "{{box" in text.split("}}", 1)[0] + "}}"
                    acc.violation("template_fn_for_templates_in_invoke_arguments" if lazy else "template_fn_once_per_expanded_call",
                                  case, sorted(calls), sorted(names))
                    break
    close_ctx(ctx)
    return acc


# --- calls whose NAME is computed by another call ------------------------------------------------------------
NLIB = {"sel": "other", "th": "ther", "other": "O[{{{1|}}}{{{a|}}}]"}
# (the tight form "{{{{sel}}}}" is left out: four braces open a parameter reference first)
NAME_PARTS = [["safesubst:other"], ["subst:", "{{sel}}"], ["other<noinclude/>"], ["\n", "{{sel}}"], [" ", "{{sel}}", " "], ["{{sel}}", "x"], ["o", "{{th}}"], ["{{sel}}", "\n"]]
NAME_ARGS = [[], ["1"], ["{{sel}}"], ["a={{sel}}"], ["{{th}}", "a=2"]]
NAME_SETS = [None, [], ["sel"], ["other"], ["sel", "other"], ["sel", "th", "other"], ["th"]]


def name_ref(parts, args, te, all_, hooks):
    """Reference for one computed-name call: returns (output, template_fn calls, post_template_fn calls)."""
    tfc, ptfc = [], []

    def call0(name, everything):
        if not (everything or (te is not None and name in te)):
            return "{{" + name + "}}"
        if hooks:
            tfc.append((name, ()))
            ptfc.append((name, (), NLIB[name]))
        return NLIB[name]

    def ev(text, everything):
        for n in ("sel", "th"):
            if "{{" + n + "}}" in text:
                text = text.replace("{{" + n + "}}", call0(n, everything), 1)
        return text

    name_exp = "".join(ev(x, all_) for x in parts)
    # the name of the template: without a <noinclude/> separator and without a substitution modifier
    tname = name_exp.replace("<noinclude/>", "").strip()
    for pre in ("subst:", "SUBST:", "safesubst:", "SAFESUBST:"):
        tname = tname.removeprefix(pre)
    chosen = "{{" not in tname and (all_ or (tname in NLIB and te is not None and tname in te))
    if not chosen:
        return "{{" + name_exp + "".join("|" + ev(a, all_) for a in args) + "}}", tfc, ptfc
    amap, num = {}, 1
    for a in args:
        if "=" in a:
            k, v = a.split("=", 1)
            amap[k] = ev(v, True).strip()
        else:
            amap[num] = ev(a, True)
            num += 1
    key = tuple(sorted(amap.items(), key=str))
    if tname in NLIB:
        res = NLIB[tname]
        if tname == "other":
            res = "O[" + amap.get(1, "") + amap.get("a", "") + "]"
    else:
        res = "[[:Template:" + tname + "]]"
    if hooks:
        tfc.append((tname, key))
        ptfc.append((tname, key, res))
    return res, tfc, ptfc


def work_names(payload, skip, report):
    """A call in the name position of another call: the inner call is expanded once (one template_fn / post_template_fn
    call), whether the outer call is then expanded or re-emitted."""
    acc = Acc(PROP)
    ctx = new_ctx()
    for n, b in NLIB.items():
        ctx.add_page("Template:" + n, 10, b)
    ctx.db_conn.commit()
    i = 0
    for parts, args, te, pre, hooks in itertools.product(NAME_PARTS, NAME_ARGS, NAME_SETS, (True, False), (False, True)):
        report(i)
        i += 1
        text = "x{{" + "".join(parts) + "".join("|" + a for a in args) + "}}y"
        case = {"page": text, "config": {"templates_to_expand": te, "pre_expand": pre, "hooks": hooks}}
        want, wtf, wptf = name_ref(parts, args, te, not pre, hooks)
        want = "x" + want + "y"
        tfc, ptfc = [], []

        def tf(name, a):
            tfc.append((name, tuple(sorted(a.items(), key=str))))

        def ptf(name, a, e):
            ptfc.append((name, tuple(sorted(a.items(), key=str)), e))

        ctx.start_page("Tt")
        acc.case()
        acc.distinct("configs", ("name", text, te, pre, hooks))
        try:
            got = ctx.expand(text, pre_expand=pre, templates_to_expand=None if te is None else set(te),
                             template_fn=tf if hooks else None, post_template_fn=ptf if hooks else None)
        except Exception as e:
            acc.violation("no_exception", case, type(e).__name__ + ": " + str(e)[:100], "returns")
            continue
        if got != want:
            acc.violation("computed_name_call_equals_reference", case, got, want)
        elif sorted(tfc, key=str) != sorted(wtf, key=str):
            acc.violation("template_fn_once_per_expanded_call", case, sorted(tfc, key=str), sorted(wtf, key=str))
        elif sorted(ptfc, key=str) != sorted(wptf, key=str):
            acc.violation("post_template_fn_sees_default_expansion", case, sorted(ptfc, key=str), sorted(wptf, key=str))
        if i % 97 == 0:
            acc.sample(case)
    close_ctx(ctx)
    return acc


# --- a live construct next to the same construct written with a brace-splitting <nowiki/> -----------------------
ESC_CALL = "&lbrace;&lbrace;u&vert;x&rbrace;&rbrace;"
ESC_PARAM = "&lbrace;&lbrace;&lbrace;1&vert;d&rbrace;&rbrace;&rbrace;"
ESC_LINK = "&lsqb;&lsqb;a&rsqb;&rsqb;"
# (text, what it gives when u is expanded, what it gives when u is not expanded, template_fn calls when expanded)
TWIN_FORMS = {
    "call": [("{{u|x}}", "U[x]", "{{u|x}}", 1), ("{<nowiki/>{u|x}}", ESC_CALL, ESC_CALL, 0), ("{{u|x}<nowiki/>}", ESC_CALL, ESC_CALL, 0)],
    "param": [("{{{1|d}}}", "d", "d", 0), ("{<nowiki/>{{1|d}}}", ESC_PARAM, ESC_PARAM, 0), ("{{{1|d}}<nowiki/>}", ESC_PARAM, ESC_PARAM, 0)],
    # (no "[[a]<nowiki/>]" form here: followed by "[<nowiki/>[a]]" the outer brackets of the two pair up as one link)
    "link": [("[[a]]", "[[a]]", "[[a]]", 0), ("[<nowiki/>[a]]", ESC_LINK, ESC_LINK, 0)],
}


def work_twins(payload, skip, report):
    """Every sequence of 2..3 forms of one family on one page (in one text, and as successive expand() calls on the page)."""
    acc = Acc(PROP)
    ctx = new_ctx()
    ctx.add_page("Template:u", 10, "U[{{{1|}}}]")
    ctx.db_conn.commit()
    i = 0
    for fam, forms in TWIN_FORMS.items():
        for n in (2, 3):
            for seq in itertools.product(forms, repeat=n):
                for pre, te, hooks, split in itertools.product((False, True), (None, ["u"], []), (False, True), (False, True)):
                    report(i)
                    i += 1
                    live = (not pre) or (te is not None and "u" in te)
                    texts = [f[0] for f in seq]
                    wants = [f[1] if live else f[2] for f in seq]
                    ncalls = sum(f[3] for f in seq) if live else 0
                    case = {"page": " ".join(texts), "config": {"pre_expand": pre, "templates_to_expand": te, "hooks": hooks,
                                                               "separate_expand_calls": split}}
                    calls = []

                    def tf(name, a):
                        calls.append(name)

                    kw = dict(pre_expand=pre, templates_to_expand=None if te is None else set(te), template_fn=tf if hooks else None)
                    ctx.start_page("Tt")
                    acc.case()
                    acc.distinct("configs", ("twin", case["page"], pre, te, hooks, split))
                    try:
                        if split:
                            got = " ".join(ctx.expand(t, **kw) for t in texts)
                        else:
                            got = ctx.expand(" ".join(texts), **kw)
                    except Exception as e:
                        acc.violation("no_exception", case, type(e).__name__ + ": " + str(e)[:100], "returns")
                        continue
                    if got != " ".join(wants):
                        acc.violation("escaped_twin_stays_text_live_twin_follows_selection", case, got, " ".join(wants))
                    elif hooks and len(calls) != ncalls:
                        acc.violation("template_fn_once_per_expanded_call", case, calls, ncalls)
                    if i % 211 == 0:
                        acc.sample(case)
    close_ctx(ctx)
    return acc


# --- what was done on the context before (parse() in each of its expansion modes, calls that fail) leaves nothing behind ---

PRIOR_TEXT = "p {{u|<nowiki>q</nowiki>}} <nowiki>r</nowiki> {{s}}"
PRIORS = ["none", "parse", "parse_additional_empty", "parse_additional_u", "parse_pre_expand", "parse_expand_all",
          "parse_do_not_pre_expand_empty", "parse_hook_raises", "expand_hook_raises", "expand_pre_expand", "node_to_wikitext"]
PRIOR_PAGES = ["a {{w|<nowiki>x|[[y]]</nowiki>}} b {{u|1}} c <nowiki>''z''</nowiki> d", "{{u|<nowiki>k</nowiki>}}", "<nowiki>{{u|n}}</nowiki> {{u|m}}",
               "{{s}} <nowiki/> {{u|<nowiki />}}", "x <nowiki>; y</nowiki>\n<nowiki>----</nowiki>"]


def do_prior(ctx, prior):
    def boom(name, args):
        raise RuntimeError("hook fails")
    try:
        if prior == "parse":
            ctx.parse(PRIOR_TEXT)
        elif prior == "parse_additional_empty":
            ctx.parse(PRIOR_TEXT, additional_expand=set())
        elif prior == "parse_additional_u":
            ctx.parse(PRIOR_TEXT, additional_expand={"u"})
        elif prior == "parse_pre_expand":
            ctx.parse(PRIOR_TEXT, pre_expand=True)
        elif prior == "parse_expand_all":
            ctx.parse(PRIOR_TEXT, expand_all=True)
        elif prior == "parse_do_not_pre_expand_empty":
            ctx.parse(PRIOR_TEXT, pre_expand=True, do_not_pre_expand=set())
        elif prior == "parse_hook_raises":
            ctx.parse(PRIOR_TEXT, expand_all=True, template_fn=boom)
        elif prior == "expand_hook_raises":
            ctx.expand(PRIOR_TEXT, template_fn=boom)
        elif prior == "expand_pre_expand":
            ctx.expand(PRIOR_TEXT, pre_expand=True)
        elif prior == "node_to_wikitext":
            ctx.node_to_wikitext(ctx.parse(PRIOR_TEXT))
    except RuntimeError:
        pass


def work_prior(payload, skip, report):
    """expand() of a page with quoted text after each earlier call of a small menu, on the same page and on the next one:
    the result is the one the call gives with nothing before it."""
    acc = Acc(PROP)
    ctx = make_ctx()
    i = 0
    for text in PRIOR_PAGES:
        for pre, te, pf in itertools.product((False, True), (None, [], ["u"]), (False, True)):
            kw = dict(pre_expand=pre, templates_to_expand=None if te is None else set(te), expand_parserfns=pf)
            ctx.start_page("Tt")
            base = ctx.expand(text, **kw)
            for prior in PRIORS:
                for newpage in (False, True):
                    if prior.endswith("_hook_raises") and not newpage:
                        # a hook that raises is outside C13's quantifier (hooks return None or a string); what the page keeps
                        # of the interrupted call (its expansion path) is only required to be gone on the next page
                        continue
                    report(i)
                    i += 1
                    case = {"page": text, "config": {"pre_expand": pre, "templates_to_expand": te, "expand_parserfns": pf,
                                                     "before": prior, "new_page_between": newpage}}
                    acc.case()
                    acc.distinct("configs", ("prior", text, pre, te, pf, prior, newpage))
                    ctx.start_page("Tt")
                    try:
                        do_prior(ctx, prior)
                        if newpage:
                            ctx.start_page("Tt")
                        got = ctx.expand(text, **kw)
                    except Exception as e:
                        acc.violation("no_exception", case, type(e).__name__ + ": " + str(e)[:100], "returns")
                        continue
                    if got != base:
                        acc.violation("same_result_whatever_was_called_before", case, got, base)
                    if any(0x10203E <= ord(c) <= 0x10FFFD for c in got):
                        acc.violation("no_placeholder_character_in_result", case, got, base)
                    if i % 97 == 0:
                        acc.sample(case)
    close_ctx(ctx)
    return acc


# --- the pipe spelling of a parser function ({{#if|c|a|b}}) is the colon spelling ({{#if:c|a|b}}) ------------------
PIPE_FNS = [("#if", 3), ("#ifeq", 4), ("#switch", 3), ("#if", 1)]     # (only names with '#' have the pipe spelling)
PIPE_ARGS = ["{{s}}", "{{u|a}}", "x", "{{w|{{s}}}}", ""]


def work_pipe(payload, skip, report):
    """Differential: both spellings give the same text and the same hook calls under every configuration."""
    acc = Acc(PROP)
    ctxs = {None: make_ctx(), "wikipedia": make_ctx("wikipedia")}
    i = 0
    for (fn, arity), pre, te, pf, hooks in itertools.product(PIPE_FNS, (True, False), (None, [], ["u"], ["s", "u", "w"]), (True, False), (False, True)):
        for args in itertools.product(PIPE_ARGS, repeat=arity):
            if arity > 2 and len(set(args)) > 3:
                continue
            if not args[0]:
                continue     # "{{#if:|..." / "{{#if||...": the empty first argument is written differently in the two spellings
            if pre and (te is None or not {"s", "u", "w"} <= set(te)):
                # under a selection the colon spelling's first argument is part of the name segment and follows the selection,
                # all other arguments are consumed by the function (adopted reading 8.3): only comparable when nothing is left out
                continue
            report(i)
            i += 1
            colon = "{{" + fn + ":" + "|".join(args) + "}}"
            pipe = "{{" + fn + "|" + "|".join(args) + "}}"
            res = []
            for text in (colon, pipe):
                calls = []

                def tf(name, a):
                    calls.append((name, tuple(sorted(a.items(), key=str))))

                ctx = ctxs[None]
                ctx.start_page("Tt")
                try:
                    out = ctx.expand(text, pre_expand=pre, templates_to_expand=None if te is None else set(te), expand_parserfns=pf,
                                     template_fn=tf if hooks else None)
                except Exception as e:
                    out = "EXC " + type(e).__name__ + ": " + str(e)[:80]
                res.append((out, sorted(calls, key=str)))
            acc.case()
            acc.distinct("configs", ("pipe", pipe, pre, te, pf, hooks))
            case = {"page": pipe, "config": {"pre_expand": pre, "templates_to_expand": te, "expand_parserfns": pf, "hooks": hooks}}
            if res[0][0] != res[1][0]:
                acc.violation("pipe_spelling_equals_colon_spelling", case, res[1][0], res[0][0])
            elif res[0][1] != res[1][1]:
                acc.violation("template_fn_once_per_expanded_call", case, res[1][1], res[0][1])
            if i % 503 == 0:
                acc.sample(case)
    for c in ctxs.values():
        close_ctx(c)
    return acc


def replay(case):
    """Replays one (page text, configuration) case; the page is re-found in the generated page list by its text."""
    ctx = make_ctx(case["config"].get("ctx"))
    try:
        for tier in ("quick", "thorough"):
            for page in pages(tier):
                if render(page) == case["page"]:
                    _, out = check(ctx, page, case["config"])
                    return [{"oracle": o, "observed": ob, "expected": ex} for o, ob, ex in out]
    finally:
        close_ctx(ctx)
    return None


def work(payload, skip, report):
    acc = Acc(PROP)
    tier, cfgs = payload
    ctxs = {None: make_ctx(), "wikipedia": make_ctx("wikipedia")}
    pgs = pages(tier)
    i = 0
    for cfg in cfgs:
        ctx = ctxs[cfg.get("ctx")]
        for page in pgs:
            report(i)
            i += 1
            text, out = check(ctx, page, cfg)
            acc.case()
            for oracle, obs, exp in out:
                acc.violation(oracle, {"page": text, "config": cfg}, obs, exp)
            if i == 5 or i % 1009 == 0:
                acc.sample({"page": text, "config": cfg})
        acc.distinct("configs", cfg)
    for ctx in ctxs.values():
        close_ctx(ctx)
    return acc


def main(run):
    cfgs = configs(run.tier)
    n = 96
    chunks = [(run.tier, cfgs[i::n]) for i in range(n)]
    chunks = [c for c in chunks if c[1]]
    for cid, acc, hung in run_chunks(work, chunks, nproc=run.nproc, case_timeout=30):
        run.acc.merge(acc)
    for cid, acc, hung in run_chunks(work_invoke, [("invoke",)], nproc=1, case_timeout=60):
        run.acc.merge(acc)
    for cid, acc, hung in run_chunks(work_names, [("names",)], nproc=1, case_timeout=60):
        run.acc.merge(acc)
    for cid, acc, hung in run_chunks(work_twins, [("twins",)], nproc=1, case_timeout=60):
        run.acc.merge(acc)
    for cid, acc, hung in run_chunks(work_pipe, [("pipe",)], nproc=1, case_timeout=60):
        run.acc.merge(acc)
    for cid, acc, hung in run_chunks(work_prior, [("prior",)], nproc=1, case_timeout=60):
        run.acc.merge(acc)
    cov = {
        "distinct_nontrivial": len(run.acc.sets.get("configs", ())),
        "pages": len(pages(run.tier)),
        "rule": "every configuration: templates_to_expand in %d sets (incl. None) x templates_to_not_expand in %d sets (incl. None) x "
                "pre_expand x expand_parserfns x template_fn in %d behaviours x post_template_fn in %d behaviours%s, times every page of "
                "the expansion grammar of size <= 3 (+ size-4 control-flow pages + hand-written interaction pages) over a library with one "
                "need_pre_expand template, one plain, one calling another, one calling the flagged one, one missing. distinct = "
                "distinct configurations." % (len(SETS_EXPAND), len(SETS_NOT), len(HOOKS), len(HOOKS),
                                              " (quick: at most one hook active)" if run.tier == "quick" else ""),
        "exhaustive": True,
    }
    assumptions = [
        "selection rule taken from the expand() docstring: under pre_expand a template is expanded iff it exists, is not in templates_to_not_expand and is flagged need_pre_expand or in templates_to_expand; without pre_expand everything is expanded",
        "computed names: %d pages whose call name is produced by another call (8 name shapes, three of them with a substitution modifier or a <noinclude/> separator, x 5 argument lists x 7 selections x pre_expand x hooks) against a 30-line reference written for that family" % (len(NAME_PARTS) * len(NAME_ARGS) * len(NAME_SETS) * 4),
        "escaped twins: every sequence of 2..3 forms out of {live, <nowiki/> after the first brace, <nowiki/> before the last brace} of one construct (call, parameter, link) on one page, in one text and as successive expand() calls, x selection x hooks",
        "pipe spelling of parser functions: #if / #ifeq / #switch with every argument vector over 5 argument forms, compared with the colon spelling under every selection x expand_parserfns x hooks (differential)",
        "earlier calls: %d pages with quoted text x 12 configurations, each expanded after every one of %d earlier calls (parse() in each expansion mode, with empty selection sets, calls whose hook raises, node_to_wikitext) on the same page and on the next page, compared with the call made with nothing before it" % (len(PRIOR_PAGES), len(PRIORS)),
        "expand_invoke: a dedicated slice (5 pages with #invoke in bodies / arguments / siblings x switch x pre_expand x hook x repeated calls) with hand-written expectations",
    ]
    return run.finish(cov, assumptions, replay_fn=replay)
