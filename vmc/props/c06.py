"""C06  Lua code from pages is confined to the sandbox.

Model checking by exhaustive reachability over the live object graph of one
initialised sandbox: roots are what a page-supplied module receives (its
environment table and its frame, captured while a probe #invoke is in flight);
edges are the moves available to Lua code holding a node (table fields via raw
next, metatables incl. the string metatable, require(n) through the sandbox's
own require for every name in the host package tables / lua directory, nullary
frame methods, attributes and items of Python objects that pass the runtime's
attribute filter).  BFS until closed; invariant on every node: not a forbidden
host object, and Python objects only of harmless kinds.  Plus: exhaustive
enumeration of module names for the built-in file loader (audit hook on open),
and an attack corpus executed for real with canaries.
"""
from __future__ import annotations

import collections
import itertools
import os
import sys
import types

from ..fixtures import close_ctx, new_ctx, scratch_dir
from ..pool import run_chunks
from ..runner import Acc

PROP = "C06"
LEVEL = "model_checking"

HELPER = r"""
local function bfs(roots, forbidden, reqnames, sandbox_require)
  local seen, queue, parent, edge = {}, {}, {}, {}
  local derived, derived_from = {}, nil
  local nobj, nedge = 0, 0
  local hits = {}
  local pyobjs = {}
  local function visit(v, from, label)
    local t = type(v)
    if t ~= "table" and t ~= "function" and t ~= "userdata" and t ~= "thread" then return end
    nedge = nedge + 1
    if seen[v] then return end
    seen[v] = true; nobj = nobj + 1
    parent[v] = from; edge[v] = label
    if from ~= nil and derived[from] then derived[v] = true end
    if forbidden[v] then hits[#hits+1] = {forbidden[v], v} end
    if t == "userdata" then pyobjs[#pyobjs+1] = v end
    queue[#queue+1] = v
  end
  local function path(v)
    local parts = {}
    while v ~= nil and edge[v] do table.insert(parts, 1, edge[v]); v = parent[v] end
    return table.concat(parts, "")
  end
  for i, r in ipairs(roots) do visit(r, nil, i == 1 and "ENV" or (i == 2 and "frame" or "parent_frame")) end
  local smt = getmetatable("")
  visit(smt, nil, "getmetatable('')")
  for _, n in ipairs(reqnames) do
    local ok, m = pcall(sandbox_require, n)
    if ok then visit(m, nil, "require('" .. n .. "')") end
  end
  -- nullary frame methods
  for i, r in ipairs(roots) do
    if i >= 2 and type(r) == "table" then
      for _, meth in ipairs({"getParent", "getTitle"}) do
        local f = rawget(r, meth)
        if f then local ok, v = pcall(f, r); if ok then visit(v, r, ":" .. meth .. "()") end end
      end
    end
  end
  local i = 1
  while i <= #queue do
    local v = queue[i]; i = i + 1
    if type(v) == "table" then
      for k, x in next, v do
        visit(k, v, "<key>")
        visit(x, v, "[" .. tostring(k) .. "]")
      end
    end
    if type(v) == "table" or type(v) == "userdata" then
      local ok, mt = pcall(getmetatable, v)
      if ok and mt ~= nil then visit(mt, v, ":getmetatable()") end
    end
    if type(v) == "userdata" and not derived[v] then
      -- a Python callable invoked with no arguments: its result, or the error value page code would catch with
      -- pcall (one level: objects that only exist as results of such calls are not called again)
      local before = #queue
      local ok, r = pcall(v)
      visit(r, v, ok and "()" or ":pcall()-error")
      for j = before + 1, #queue do derived[queue[j]] = true end
    end
    if derived[v] then
      -- everything first discovered below a call result inherits the mark
      derived_from = v
    end
  end
  local out = {}
  for _, h in ipairs(hits) do out[#out+1] = h[1] .. " via " .. path(h[2]) end
  return nobj, nedge, out, pyobjs, path
end
return bfs
"""

FORBIDDEN = r"""
(function()
  local f = {}
  local function add(obj, name) if obj ~= nil then f[obj] = name end end
  add(_G, "host _G"); add(io, "io"); add(os, "host os")
  for _, n in ipairs({"execute", "getenv", "remove", "rename", "exit", "tmpname", "setlocale"}) do add(os[n], "os." .. n) end
  add(package, "host package"); add(package.loadlib, "package.loadlib"); add(package.loaded, "host package.loaded")
  add(debug, "host debug")
  for _, n in ipairs({"getregistry", "getupvalue", "setupvalue", "sethook", "gethook", "getinfo", "setmetatable", "getmetatable",
                      "getfenv", "setfenv", "getlocal", "setlocal", "debug"}) do add(debug[n], "debug." .. n) end
  for _, n in ipairs({"load", "loadstring", "dofile", "loadfile", "setfenv", "getfenv", "newproxy", "module", "collectgarbage"}) do
    add(_G[n], n)
  end
  add(python, "python (lupa bridge)")
  if python then for _, n in ipairs({"builtins", "eval", "as_attrgetter", "as_itemgetter", "as_function", "iter", "iterex", "enumerate", "none"}) do
    add(python[n], "python." .. n) end end
  for _, n in ipairs({"open", "popen", "lines", "input", "output", "read", "write", "tmpfile", "close"}) do add(io[n], "io." .. n) end
  return f
end)()
"""

PROBE = """
local export = {}
function export.f(frame) return "x" end
return export
"""
ALLOWED_PY = (str, int, float, bool, type(None))


class Rec(collections.deque):
    log = None

    def append(self, x):
        self.log.append(x)
        super().append(x)


def build():
    ctx = new_ctx(lua=True)
    envs, frames = [], []
    e = Rec()
    e.log = envs
    ctx.lua_env_stack = e
    f = Rec()
    f.log = frames
    ctx.lua_frame_stack = f
    ctx.add_page("Module:probe", 828, PROBE, model="Scribunto")
    ctx.add_page("Template:t", 10, "{{#invoke:probe|f|a|b=c}}")
    ctx.start_page("Tt")
    return ctx, envs, frames


def lua_dir_names():
    import wikitextprocessor

    d = os.path.join(os.path.dirname(wikitextprocessor.__file__), "lua")
    return sorted(fn[:-4] for fn in os.listdir(d) if fn.endswith(".lua"))


def reachability(history):
    """history: list of pages expanded before the graph is taken (the last one must invoke the probe)."""
    ctx, envs, frames = build()
    out = []
    try:
        for text in history:
            ctx.start_page("Tt")
            ctx.expand(text)
        if not envs or not frames:
            return [("probe_captured", "no env/frame captured", "captured")], {}
        env, frame = envs[-1], frames[-1]
        lua = ctx.lua
        g = lua.globals()
        helper = lua.execute(HELPER)
        forbidden = lua.eval(FORBIDDEN)
        reqnames = sorted(set([str(k) for k in g.package.loaded.keys()] + [str(k) for k in g.package.preload.keys()]
                              + lua_dir_names() + ["mw", "string", "debug", "_sandbox_phase1", "_sandbox_phase2", "ffi", "jit",
                                                   "bit", "lupa", "python", "libraryUtil", "strict"]))
        roots = [env, frame]
        try:
            pf = frame.getParent(frame)
            if pf is not None:
                roots.append(pf)
        except Exception:
            pass
        nobj, nedge, hits, pyobjs, pathfn = helper(lua.table_from(roots), forbidden, lua.table_from(reqnames), env.require)
        for h in sorted(set(hits.values())):
            what, via = h.split(" via ", 1)
            out.append(("no_host_object_reachable", {"object": what, "lua_path": via}, "unreachable"))
        # python side
        seen = set()
        q = [(o, pathfn(o)) for o in pyobjs.values()]
        npy = 0
        while q:
            o, p = q.pop(0)
            if id(o) in seen:
                continue
            seen.add(id(o))
            npy += 1
            if isinstance(o, ALLOWED_PY):
                continue
            if isinstance(o, tuple):
                for i, x in enumerate(o):
                    q.append((x, p + "[%d]" % i))
                continue
            if isinstance(o, BaseException):
                # what page code can read from a caught Python exception: its args
                for i, x in enumerate(getattr(o, "args", ())):
                    q.append((x, p + ".args[%d]" % i))
                for n in ("name", "obj", "value", "filename"):
                    if hasattr(o, n):
                        q.append((getattr(o, n), p + "." + n))
                continue
            if isinstance(o, (types.BuiltinFunctionType, types.BuiltinMethodType, types.MethodWrapperType)):
                continue
            if isinstance(o, types.FunctionType):
                names = [n for n in dir(o) if not n.startswith("_")]
                for n in names:
                    q.append((getattr(o, n), p + "." + n))
                continue
            out.append(("python_objects_harmless", {"type": type(o).__module__ + "." + type(o).__name__, "lua_path": p},
                        "str/int/float/bool/None/tuple or a plain function"))
            for n in dir(o):
                if n.startswith("_"):
                    continue
                try:
                    x = getattr(o, n)
                except Exception:
                    continue
                if len(seen) < 5000:
                    q.append((x, p + "." + n))
            if isinstance(o, (dict, list)):
                for k2 in (list(o.keys()) if isinstance(o, dict) else range(len(o)))[:50]:
                    q.append((o[k2], p + "[%r]" % (k2,)))
        stats = {"lua_objects": int(nobj), "lua_edges": int(nedge), "python_objects": npy, "require_names_tried": len(reqnames)}
    finally:
        close_ctx(ctx)
    return out, stats


# ---------------------------------------------------------------- loader names
LOADER_ALPHA = ["/", ".", "..", ":", " ", "a", "\n", "\0", "\x01", "_sandbox_phase1", "mw", "~", "\\"]


def loader_chunk(prefix, length):
    from wikitextprocessor import luaexec

    ctx = new_ctx()
    opened = []

    def hook(event, args):
        if event == "open" and args and isinstance(args[0], (str, bytes)):
            opened.append(args[0] if isinstance(args[0], str) else args[0].decode("utf-8", "replace"))

    sys.addaudithook(hook)
    import pathlib

    checked = []
    orig_is_file = pathlib.Path.is_file

    def rec_is_file(self, *a, **k):
        checked.append(str(self))
        return orig_is_file(self, *a, **k)

    pathlib.Path.is_file = rec_is_file
    lua_dir = os.path.realpath(str(luaexec.LUA_DIR))
    lua_dir_norm = os.path.normpath(str(luaexec.LUA_DIR))
    canary_dir = scratch_dir("c06canary")
    with open(os.path.join(canary_dir, "x.lua"), "w") as f:
        f.write("return 'CANARY'")
    out = []
    n = 0
    extra = [canary_dir + "/x", canary_dir[1:] + "/x", "../" * 8 + canary_dir[1:] + "/x", "/" + canary_dir + "/x",
             ":" + canary_dir + "/x", " " + canary_dir + "/x", "\n" + canary_dir + "/x", "..//.." + canary_dir + "/x"]
    names = ("".join(prefix + r) for r in itertools.product(LOADER_ALPHA, repeat=length - len(prefix)))
    for name in itertools.chain(names, extra if not prefix else []):
        del opened[:]
        del checked[:]
        try:
            data = luaexec.lua_loader(ctx, name)
        except Exception as e:
            out.append(("loader_total", {"module_name": name}, type(e).__name__, "None or source text"))
            continue
        n += 1
        for p in opened:
            rp = os.path.realpath(p)
            if p.endswith(".lua") and not rp.startswith(lua_dir + os.sep):
                out.append(("loader_stays_in_lua_dir", {"module_name": name}, rp, "a path under " + lua_dir))
        for p in checked:
            np_ = os.path.normpath(p)
            if not (np_ + os.sep).startswith(lua_dir_norm + os.sep):
                out.append(("loader_stays_in_lua_dir", {"module_name": name}, "candidate path " + np_, "a path under " + lua_dir_norm))
        if data is not None and "CANARY" in data:
            out.append(("loader_stays_in_lua_dir", {"module_name": name}, "read the canary file", "not readable"))
    pathlib.Path.is_file = orig_is_file
    close_ctx(ctx)
    return out, n


# ---------------------------------------------------------------- attack corpus
ATTACKS = {
    "require_io": "local io = require('io'); return type(io) == 'table' and type(io.open) == 'function' and 'GOT io.open' or 'no'",
    "require_os_execute": "local o = require('os'); return (o and o.execute) and 'GOT os.execute' or 'no'",
    "require_G_loadstring": "local g = require('_G'); return (g and g.loadstring) and 'GOT loadstring' or 'no'",
    "require_python": "local p = require('python'); return p and 'GOT python' or 'no'",
    "require_package_loadlib": "local p = require('package'); return (p and p.loadlib) and 'GOT loadlib' or 'no'",
    "require_debug_getregistry": "local d = require('debug'); return (d and d.getregistry) and 'GOT getregistry' or 'no'",
    "global_io": "return io and 'GOT io' or 'no'",
    "global_os_execute": "return (os and os.execute) and 'GOT os.execute' or 'no'",
    "global_load": "return (load or loadstring or dofile or loadfile) and 'GOT load*' or 'no'",
    "global_python": "return python and 'GOT python' or 'no'",
    "global_getfenv": "return (getfenv or setfenv) and 'GOT fenv' or 'no'",
    "debug_full": "return (debug.getregistry or debug.sethook or debug.getupvalue or debug.getinfo) and 'GOT debug.*' or 'no'",
    "string_meta_escape": "local mt = getmetatable(''); local g = mt and mt.__index and mt.__index._G; return g and 'GOT _G via string' or 'no'",
    "package_loaded_host": "return (package.loaded and package.loaded.io) and 'GOT package.loaded.io' or 'no'",
    "partial_ctx": "local f = mw_python_get_page_info; local ok, c = pcall(function() return f.args[0] end); return (ok and c ~= nil) and 'GOT ctx' or 'no'",
    "partial_db_delete": "local ok, r = pcall(function() local c = mw_python_get_page_info.args[0]; c.db_conn.execute('DELETE FROM pages'); c.db_conn.commit(); return 'DELETED' end); return ok and r or 'no'",
    "partial_lua_eval": "local ok, r = pcall(function() local c = mw_python_get_page_info.args[0]; return c.lua.eval('io ~= nil') end); return (ok and r) and 'GOT host eval' or 'no'",
    "frame_func_globals": "local ok, r = pcall(function() return frame_mt end); local f = mw.getCurrentFrame and mw.getCurrentFrame(); local ok2, g = pcall(function() return f.preprocess.__globals__ end); return (ok2 and g ~= nil) and 'GOT __globals__' or 'no'",
    "frame_func_closure": "local f = mw.getCurrentFrame(); local ok, g = pcall(function() return f.preprocess.__closure__ end); return (ok and g ~= nil) and 'GOT __closure__' or 'no'",
    "loader_abs_path": "local ok, r = pcall(require, '__CANARY_ABS__'); return (ok and r == 'CANARY') and 'GOT canary (abs)' or 'no'",
    "loader_dotdot": "local ok, r = pcall(require, '__CANARY_REL__'); return (ok and r == 'CANARY') and 'GOT canary (rel)' or 'no'",
    "set_python_loader_again": "local ok = pcall(_lua_set_python_loader, function(n) return 'return io' end); return ok and 'REPLACED loader' or 'no'",
    "new_loader_host_env": "local ok, r = pcall(function() local fn = _new_loader('_sandbox_phase1', {}); return fn end); return 'no'",
    "os_time_only": "return (os.getenv or os.remove or os.rename or os.exit or os.tmpname) and 'GOT os.*' or 'no'",
    "userdata_metatable_writable": "local mt = getmetatable(mw_python_get_page_info); if type(mt) ~= 'table' then return 'no' end local ok = pcall(function() mt.__c06probe = 1 end); local w = ok and mt.__c06probe == 1; if w then mt.__c06probe = nil end return w and 'GOT writable metatable shared by all Python objects' or 'no'",
    "userdata_gc_callable": "local mt = getmetatable(frame.preprocess); return (type(mt) == 'table' and type(mt.__gc) == 'function') and 'GOT __gc of Python objects' or 'no'",
    "bytecode_page_is_loaded": "local ok, r = pcall(require, 'Module:bcpage'); return (ok and r == 'RAN-FROM-BYTECODE') and 'GOT precompiled chunk executed' or 'no'",
    # the same after page code has replaced functions of the shared string table (reachable through the string metatable):
    # what the loaders rely on must not be something a page can swap
    "bytecode_page_after_string_table_override": "local s = getmetatable('').__index; local saved = {} for _, k in ipairs({'byte', 'sub', 'find', 'char', 'len', 'match'}) do saved[k] = s[k] end s.byte = function() return 0 end s.sub = function() return '' end s.find = function() return nil end s.match = function() return nil end local ok, r = pcall(require, 'Module:bcpage2') for k, v in pairs(saved) do s[k] = v end return (ok and r == 'RAN-FROM-BYTECODE') and 'GOT precompiled chunk executed after replacing string.byte' or 'no'",
    # keys that are not strings: a table whose tostring() is an underscore name, a number, a boolean - none of them may name
    # an attribute of a Python object
    "helper_indexed_with_tostring_table": "local k = setmetatable({}, {__tostring = function() return '__globals__' end}); local ok, g = pcall(function() return mw_python_get_page_info[k] end); local k2 = setmetatable({}, {__tostring = function() return '__closure__' end}); local ok2, c = pcall(function() return frame.preprocess[k2] end); return ((ok and g ~= nil) or (ok2 and c ~= nil)) and 'GOT attribute through a non-string key' or 'no'",
    "helper_indexed_with_number_or_boolean": "local hit = false; for _, k in ipairs({1, 0, -1, 1.5}) do local ok, v = pcall(function() return mw_python_get_page_info[k] end); if ok and v ~= nil then hit = true end end; local ok3, v3 = pcall(function() return mw_python_get_page_info[true] end); if ok3 and v3 ~= nil then hit = true end; return hit and 'GOT value through a numeric/boolean key' or 'no'",
    # a precompiled chunk behind something a lenient loader might skip (byte order mark, blank, newline, a '#' line)
    "bytecode_page_behind_a_prefix": "local hit = nil for _, n in ipairs({'Module:bcbom', 'Module:bcblank', 'Module:bcnl', 'Module:bchash'}) do local ok, r = pcall(require, n) if ok and r == 'RAN-FROM-BYTECODE' then hit = n end end return hit and ('GOT precompiled chunk executed from ' .. hit) or 'no'",
    "string_dump_available": "return (string.dump ~= nil) and 'GOT string.dump' or 'no'",
    "python_exception_object": "local ok, e = pcall(mw_python_get_page_content); return (not ok and type(e) ~= 'string') and ('GOT error value of type ' .. type(e)) or 'no'",
    "python_exception_object_xpcall": "local seen; xpcall(function() mw_python_get_page_content() end, function(e) seen = type(e) return e end); return (seen ~= nil and seen ~= 'string') and ('GOT handler sees ' .. seen) or 'no'",
    "write_file_via_io": "local ok, r = pcall(function() local io = require('io'); local f = io.open('__CANARY_DIR__/written', 'w'); f:write('x'); f:close(); return 'WROTE' end); return ok and r or 'no'",
}


# ---------------------------------------------------------------- helper-call histories
# The sandbox leaves a number of internal helpers in the environment a module sees (the environment-stack helpers, the
# loaders, _lua_reset_env, ...).  A page module may call them.  Explored exhaustively: every sequence (length <= bound) of
# calls helper(arg) over all such helpers x a small argument domain, followed by loading a fresh probe module through each
# loading route; the probe reports which host facilities its environment offers.  Oracle: nothing (as in the empty history).
PROBE_SEES = r"""
local seen = {}
local function has(t, ks) if type(t) ~= 'table' then return false end for _, k in ipairs(ks) do if t[k] ~= nil then return true end end return false end
if io ~= nil then seen[#seen+1] = 'io' end
if has(os, {'execute', 'getenv', 'remove', 'rename', 'exit', 'tmpname'}) then seen[#seen+1] = 'os.*' end
if loadstring ~= nil or load ~= nil or dofile ~= nil or loadfile ~= nil then seen[#seen+1] = 'load*' end
if python ~= nil then seen[#seen+1] = 'python' end
if has(package, {'loadlib', 'searchpath', 'cpath'}) then seen[#seen+1] = 'package.*' end
if has(debug, {'getupvalue', 'getregistry', 'sethook', 'getinfo', 'setmetatable', 'getlocal'}) then seen[#seen+1] = 'debug.*' end
if getfenv ~= nil or setfenv ~= nil then seen[#seen+1] = 'fenv' end
local r = table.concat(seen, ',')
"""
HELPER_ARGS = ["nil", "{}", "'x'", "_G", "function() return _G end"]
ROUTES = {
    "require": "local ok, m = pcall(require, 'Module:%s'); return ok and ('SEES[' .. tostring(m.r) .. ']') or 'loaderr'",
    "loadData": "local ok, m = pcall(mw.loadData, 'Module:%s'); return ok and ('SEES[' .. tostring(m.r) .. ']') or 'loaderr'",
    "invoke": "local ok, m = pcall(frame.preprocess, frame, '{{#invoke:%s|f}}'); return ok and tostring(m) or 'loaderr'",
}
DISCOVER = """local e = {} function e.f(frame) local out = {}
for k, v in pairs(_G) do local t = type(v)
  if (t == 'function' or t == 'userdata') and type(k) == 'string' and (k:sub(1, 1) == '_' or k:find('python')) then out[#out+1] = k end end
table.sort(out) return table.concat(out, ' ') end return e"""


def sandbox_helpers():
    ctx = new_ctx(lua=True)
    ctx.add_page("Module:disc", 828, DISCOVER, model="Scribunto")
    ctx.start_page("Tt")
    names = ctx.expand("{{#invoke:disc|f}}").split()
    close_ctx(ctx)
    return names


def helper_histories(part, nparts, length, report=None):
    out, n, loaded = [], 0, 0
    names = sandbox_helpers()
    ops = [(h, a) for h in names for a in HELPER_ARGS]
    hists = [()] if part == 0 else []
    for L in range(1, length + 1):
        for i, hs in enumerate(itertools.product(ops, repeat=L)):
            if i % nparts == part:
                hists.append(hs)
    for hi, hs in enumerate(hists):
        if report is not None:
            report(hi)
        ctx = new_ctx(lua=True)
        ctx.add_page("Module:warm", 828, "local e = {} function e.f(frame) return 'w' end return e", model="Scribunto")
        calls = " ".join("pcall(%s, %s)" % (h, a) for h, a in hs)
        for r, code in ROUTES.items():
            ctx.add_page("Module:probe " + r, 828, PROBE_SEES + "return {r = r, f = function() return 'SEES[' .. r .. ']' end}", model="Scribunto")
            ctx.add_page("Module:hist " + r, 828, "local e = {} function e.f(frame) " + calls + " " + (code % ("probe " + r)) + " end return e",
                         model="Scribunto")
        ctx.start_page("Tt")
        ctx.expand("{{#invoke:warm|f}}")
        for r in ROUTES:
            ctx.start_page("Tt")
            try:
                res = ctx.expand("{{#invoke:hist " + r + "|f}}")
            except Exception as e:
                res = "EXC " + type(e).__name__
            n += 1
            loaded += "SEES[]" in res
            if "SEES[" in res and "SEES[]" not in res:
                out.append(("module_env_confined_after_helper_calls",
                            {"calls": ["%s(%s)" % (h, a) for h, a in hs], "route": r}, res[:200], "SEES[] or a load error"))
        close_ctx(ctx)
    return out, n, names, loaded


def lua51_chunk(text):
    """A precompiled Lua 5.1 chunk (little endian, 64 bit) whose main function returns `text`; every byte is < 0x80, so it
    survives the page store as a str."""
    import struct

    def lstr(x):
        b = x.encode() + b"\0"
        return struct.pack("<Q", len(b)) + b

    loadk = 1 | 0 << 6 | 0 << 14                 # LOADK  R0 K0
    ret2 = 30 | 0 << 6 | 2 << 23                  # RETURN R0 2
    f = struct.pack("<Q", 0) + struct.pack("<ii", 0, 0) + bytes([0, 0, 0, 2])
    f += struct.pack("<i", 3) + b"".join(struct.pack("<I", c) for c in (loadk, ret2, ret2))   # (B=1 would need the byte 0x80)
    f += struct.pack("<i", 1) + b"\4" + lstr(text)
    f += struct.pack("<i", 0) + struct.pack("<iii", 0, 0, 0)
    return (b"\x1bLuaQ\x00\x01\x04\x08\x04\x08\x00" + f).decode("ascii")


def run_attacks(after_another_context=False, silent_pages=False):
    """after_another_context: a first context of this process has set up and used its own Lua runtime before the attacked
    one is created (what the sandbox set-up does per runtime must happen for every runtime, not once per process)."""
    out = []
    canary_dir = scratch_dir("c06atk")
    with open(os.path.join(canary_dir, "x.lua"), "w") as f:
        f.write("return 'CANARY'")
    first = None
    if after_another_context:
        first = new_ctx(lua=True)
        first.add_page("Module:warm", 828, "local e = {} function e.f(frame) return 'w' end return e", model="Scribunto")
        first.start_page("First")
        first.expand("{{#invoke:warm|f}}")
    ctx = new_ctx(lua=True)
    ctx.add_page("Victim", 0, "victim body")
    ctx.add_page("Template:t", 10, "T")
    n = 0
    ctx.add_page("Module:warm", 828, "local e = {} function e.f(frame) return 'w' end return e", model="Scribunto")
    ctx.add_page("Module:bcpage", 828, lua51_chunk("RAN-FROM-BYTECODE"), model="Scribunto")
    ctx.add_page("Module:bcpage2", 828, lua51_chunk("RAN-FROM-BYTECODE"), model="Scribunto")
    for nm, pre in (("bcbom", "\ufeff"), ("bcblank", " "), ("bcnl", "\n"), ("bchash", "#!lua\n")):
        ctx.add_page("Module:" + nm, 828, pre + lua51_chunk("RAN-FROM-BYTECODE"), model="Scribunto")
    if silent_pages:
        # the page store holds modules named like the host libraries that return nothing (or nil, or false): require() of
        # such a name must still not hand out the host library
        for hn, body in (("io", "-- nothing"), ("os", "return nil"), ("python", "local x = 1"), ("package", "-- p"), ("debug", "return"),
                         ("_G", "-- g"), ("string", "return nil"), ("coroutine", "")):
            ctx.add_page("Module:" + hn, 828, body, model="Scribunto")
    ctx.start_page("Tt")
    ctx.expand("{{#invoke:warm|f}}")   # initialises the sandbox (this writes the bootstrap page once)
    for name, code in sorted(ATTACKS.items()):
        code = code.replace("__CANARY_ABS__", canary_dir + "/x").replace("__CANARY_REL__", "../" * 10 + canary_dir[1:] + "/x") \
            .replace("__CANARY_DIR__", canary_dir)
        ctx.add_page("Module:atk " + name.replace("_", "-"), 828, "local e = {} function e.f(frame) " + code + " end return e", model="Scribunto")
        ctx.db_conn.commit()
        before = sorted((p.title, p.body) for p in ctx.get_all_pages() if not p.title.startswith("Module:atk"))
        ctx.start_page("Tt")
        try:
            res = ctx.expand("{{#invoke:atk " + name.replace("_", "-") + "|f}}")
        except Exception as e:
            res = "EXC " + type(e).__name__
        n += 1
        if res.startswith(("GOT", "DELETED", "WROTE", "REPLACED")):
            case = {"attack": name, "lua": code[:200]}
            if after_another_context:
                case["context"] = "second context of the process"
            if silent_pages:
                case["page_store"] = "has modules named like host libraries that return nothing"
            out.append(("attack_fails", case, res, "no"))
        after = sorted((p.title, p.body) for p in ctx.get_all_pages() if not p.title.startswith("Module:atk"))
        if after != before:
            out.append(("page_store_untouched", {"attack": name}, {"pages_after": len(after)}, {"pages_before": len(before)}))
            for t, b in before:
                ctx.add_page(t, 828 if t.startswith("Module:") else 10 if t.startswith("Template:") else 0, b,
                             model="Scribunto" if t.startswith("Module:") else "wikitext")
        if os.path.exists(os.path.join(canary_dir, "written")):
            out.append(("filesystem_untouched", {"attack": name}, "file written", "nothing written"))
            os.remove(os.path.join(canary_dir, "written"))
    close_ctx(ctx)
    if first is not None:
        close_ctx(first)
    return out, n


def work(payload, skip, report):
    acc = Acc(PROP)
    kind = payload[0]
    report(0)
    if kind == "graph":
        _, history = payload
        res, stats = reachability(history)
        acc.case()
        for k, v in stats.items():
            acc.count(k, v)
        for o, ob, ex in res:
            acc.violation(o, {"history": history, **(ob if isinstance(ob, dict) else {"observed": ob})}, ob, ex)
        acc.sample({"graph_after": history, **stats})
    elif kind == "loader":
        _, prefix, length = payload
        res, n = loader_chunk(tuple(prefix), length)
        acc.case(n)
        acc.count("loader_names", n)
        for o, case, ob, ex in res:
            acc.violation(o, case, ob, ex)
    elif kind == "helpers":
        _, part, nparts, length = payload
        res, n, nh, loaded = helper_histories(part, nparts, length, report)
        acc.case(n)
        acc.count("helper_probes_loaded", loaded)
        acc.count("helper_histories", n)
        for h in nh:
            acc.distinct("helpers", h)
        for o, case, ob, ex in res:
            acc.violation(o, case, ob, ex)
    else:
        res, n = run_attacks(len(payload) > 1 and payload[1] == "second_context", len(payload) > 1 and payload[1] == "silent_pages")
        acc.case(n)
        acc.count("attacks", n)
        for o, case, ob, ex in res:
            acc.violation(o, case, ob, ex)
        acc.sample({"attacks": sorted(ATTACKS)[:6]})
    return acc


def main(run):
    q = run.tier == "quick"
    chunks = [("graph", ["{{t|1|k=v}}"])]
    chunks.append(("graph", ["{{#invoke:probe|f}}", "{{t|1}}"]))
    if not q:
        chunks.append(("graph", ["{{#invoke:probe|nofn}}", "{{#invoke:nomod|f}}", "{{t|1}}"]))
        chunks.append(("graph", ["{{t}}", "{{t}}", "{{#invoke:probe|f|{{t}}}}"]))
    L = 4 if q else 5
    for a in LOADER_ALPHA:
        chunks.append(("loader", [a], L))
    chunks.append(("loader", [], 1))
    chunks.append(("loader", [], 2))
    chunks.append(("loader", [], 3))
    chunks.append(("attacks",))
    chunks.append(("attacks", "second_context"))
    chunks.append(("attacks", "silent_pages"))
    for part in range(16):
        chunks.append(("helpers", part, 16, 1 if q else 2))
    for cid, acc, hung in run_chunks(work, chunks, nproc=run.nproc, case_timeout=300):
        run.acc.merge(acc)
    c = run.acc.counters
    graphs = len([x for x in chunks if x[0] == "graph"])
    cov = {
        "states": c["lua_objects"] + c["python_objects"],
        "transitions": c["lua_edges"],
        "traces_validated_against_impl": c["attacks"] + c["loader_names"],
        "distinct_nontrivial": c["lua_objects"],
        "rule": "closed BFS over the live object graph of %d initialised sandboxes (after different invocation histories): states = "
                "Lua tables/functions/userdata + Python objects reached, transitions = edges followed (table fields via raw next, "
                "metatables, string metatable, require of %d names per graph through the sandbox's own require, nullary frame methods, "
                "filter-passing attributes and items of Python objects); module names for the file loader: every name of length <= %d "
                "over a %d-symbol path alphabet with an audit hook on open(); %d attack modules executed for real with canary file and "
                "page-store digest; helper-call histories: every sequence of <= %d calls helper(arg) over the %d internal helpers visible "
                "in a module's environment x %d argument shapes, each followed by loading a fresh probe module through require, "
                "mw.loadData and a nested #invoke (%d probes, %d of which loaded and reported their environment), which must see no host "
                "facility" % (
                    graphs, c["require_names_tried"] // max(1, graphs), L, len(LOADER_ALPHA), len(ATTACKS),
                    1 if q else 2, len(run.acc.sets.get("helpers", ())), len(HELPER_ARGS), c["helper_histories"], c["helper_probes_loaded"]),
        "exhaustive": True,
        "bound": "results of calling reachable functions with arbitrary arguments are not edges (only the listed calls)",
    }
    assumptions = [
        "the forbidden set is built host-side from the real runtime (host _G, io, os and its unsafe members, package, debug and its members, load*, setfenv/getfenv, lupa's python table)",
        "Python objects are harmless iff str/int/float/bool/None/tuple of those or a plain function whose non-underscore attributes are harmless (underscore attributes are denied by the runtime's attribute filter)",
    ]
    return run.finish(cov, assumptions, replay_fn=None)
