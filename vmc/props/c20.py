"""C20  Concurrent worker contexts on one database agree and do not disturb it.

Model checking of schedules on the real implementation: N worker bodies (open a
Wtp on the shared file, start a page, expand a page with a template and a Lua
invocation, read back, close) run as threads under a baton scheduler.  A
scheduling point precedes every operation on the shared files: every
sqlite3 connect/execute/executescript/commit/close/backup (through a
Connection subclass injected into core.sqlite3.connect) and every
Path.exists/unlink/rename on the database paths.  Connections use timeout=0 and
"database is locked" is turned into *blocked* (retry when rescheduled), which is
what SQLite's busy handler does in real time.  Every schedule with at most B
preemptions is executed (stateless, prefix replay on a fresh copy of the
database directory; iteratively B = 0, 1, 2).
"""
from __future__ import annotations

import os
import shutil
import sqlite3
import threading
from pathlib import Path

import wikitextprocessor.core as core
from wikitextprocessor import Wtp

from ..fixtures import USTRING, scratch_dir
from ..pool import run_chunks
from ..runner import Acc

PROP = "C20"
LEVEL = "model_checking"
MOD = ("local e = {} function e.f(frame) return 'L' .. (frame.args[1] or '') end "
       # page work that reads site data kept in the database (the interwiki map; its table is absent in a store filled by add_page)
       "function e.iw(frame) local ok, m = pcall(mw.site.interwikiMap) if not ok then return 'iw-error:' .. tostring(m):sub(1, 60) end "
       "local n = 0 for _ in pairs(m) do n = n + 1 end return 'iw:' .. n end return e")

CONDITIONS = [
    {"name": "plain", "backup": False, "bootstrap": True},
    {"name": "no-bootstrap-page", "backup": False, "bootstrap": False},
    {"name": "backup-present", "backup": True, "bootstrap": True},
    {"name": "backup-present+no-bootstrap-page", "backup": True, "bootstrap": False},
    # database file created by a context with db_path=None (temporary file), then shared
    {"name": "default-path-db", "backup": False, "bootstrap": False, "default_path": True},
    # workers keep a get_all_pages() cursor open while they work
    {"name": "open-cursor", "backup": False, "bootstrap": True, "cursor": True},
    {"name": "default-path-db+open-cursor", "backup": False, "bootstrap": True, "default_path": True, "cursor": True},
    # ... and the sandbox bootstrap page is not stored yet: the first Lua use of each worker wants to write it
    {"name": "open-cursor+no-bootstrap-page", "backup": False, "bootstrap": False, "cursor": True},
    # the shared database lies directly in the system temporary directory (e.g. it was created by a parent Wtp() without db_path)
    {"name": "db-in-tempdir-root", "backup": False, "bootstrap": True, "tmproot": True},
    # the backup is taken by a context that stays open on the path while the workers open it (and restore from the backup)
    {"name": "backup-present+main-context-open", "backup": False, "bootstrap": True, "main_open": True},
]


class ReplayDivergence(Exception):
    pass


class Sched:
    def __init__(self, n, prefix):
        self.n = n
        self.prefix = list(prefix)
        self.choices = []
        self.points = []     # (order, last, states-of-order, label of picked)
        self.sems = [threading.Semaphore(0) for _ in range(n)]
        self.main = threading.Semaphore(0)
        self.state = ["new"] * n   # ready, blocked, done
        self.label = [None] * n
        self.woken = [False] * n
        self.deadlock = False
        self.giveup = False
        self.blocked_retries = 0
        self.tid = threading.local()
        self.configs = []

    def point(self, label, blocked=False):
        i = getattr(self.tid, "i", None)
        if i is None:
            return
        self.state[i] = "blocked" if blocked else "ready"
        if blocked:
            self.blocked_retries += 1
        self.label[i] = label
        self.main.release()
        self.sems[i].acquire()

    def run(self, bodies):
        ths = []
        self.errors = [None] * self.n
        self.results = [None] * self.n

        def wrap(i):
            self.tid.i = i
            self.sems[i].acquire()
            try:
                self.results[i] = bodies[i]()
            except BaseException as e:  # noqa: BLE001
                self.errors[i] = type(e).__name__ + ": " + str(e)[:120]
            self.state[i] = "done"
            self.main.release()

        for i in range(self.n):
            t = threading.Thread(target=wrap, args=(i,), daemon=True)
            t.start()
            ths.append(t)
            self.state[i] = "ready"
            self.label[i] = "start"
        step = 0
        last = None
        while True:
            enabled = [i for i in range(self.n) if self.state[i] == "ready" or (self.state[i] == "blocked" and self.woken[i])]
            if not enabled:
                if any(st == "blocked" for st in self.state):
                    # every live worker is waiting for a lock nobody can release
                    self.deadlock = True
                    self.giveup = True
                    for i in range(self.n):
                        if self.state[i] == "blocked":
                            self.woken[i] = True
                    enabled = [i for i in range(self.n) if self.state[i] == "blocked"]
                else:
                    break
            order = sorted(enabled, key=lambda i: (0 if (i == last and self.state[i] == "ready") else 1,
                                                   self.state[i] == "blocked", i))
            c = self.prefix[step] if step < len(self.prefix) else 0
            if c >= len(order):
                raise ReplayDivergence("step %d: choice %d of %d" % (step, c, len(order)))
            pick = order[c]
            self.points.append((list(order), last, [self.state[i] for i in order], self.label[pick]))
            self.configs.append((tuple(self.label), tuple(self.state)))
            self.choices.append(c)
            last = pick
            step += 1
            was_blocked = self.state[pick] == "blocked"
            self.woken[pick] = False
            self.sems[pick].release()
            self.main.acquire()
            # A worker that was waiting for a lock, retried and is waiting again has changed nothing: only a step that made
            # progress gives the other waiting workers a reason to retry (otherwise three workers that all wait keep waking
            # each other and one execution runs for thousands of pointless scheduling points).
            if not (was_blocked and self.state[pick] == "blocked"):
                for j in range(self.n):
                    if j != pick:
                        self.woken[j] = True
            if step > 4000:
                self.giveup = True
        for t in ths:
            t.join(timeout=10)
        return self


SCHED = None
_orig_connect = sqlite3.connect
_installed = False


class Conn(sqlite3.Connection):
    def _retry(self, name, fn, *a):
        while True:
            if SCHED is not None:
                SCHED.point(name)
            try:
                return fn(*a)
            except sqlite3.OperationalError as e:
                # SQLITE_BUSY_SNAPSHOT (a stale read snapshot cannot be upgraded to a write) is not subject to the busy
                # handler: SQLite fails the statement at once, whatever the timeout, so the code under test gets it
                if getattr(e, "sqlite_errorname", "") == "SQLITE_BUSY_SNAPSHOT":
                    raise
                if SCHED is not None and ("locked" in str(e) or "busy" in str(e)) and not SCHED.giveup:
                    SCHED.point(name + ":blocked", blocked=True)
                    continue
                raise

    def execute(self, *a):
        return self._retry("execute:" + a[0].split()[0], super().execute, *a)

    def executescript(self, *a):
        return self._retry("executescript", super().executescript, *a)

    def commit(self):
        return self._retry("commit", super().commit)

    def close(self):
        return self._retry("close", super().close)

    def backup(self, *a, **k):
        if SCHED is not None:
            SCHED.point("backup")
        return super().backup(*a, **k)


def _connect(path, **kw):
    kw.pop("timeout", None)
    if SCHED is not None:
        SCHED.point("connect")
    return _orig_connect(path, timeout=0, factory=Conn, **kw)


def install():
    global _installed
    if _installed:
        return
    _installed = True
    core.sqlite3.connect = _connect
    for name in ("exists", "unlink", "rename"):
        orig = getattr(Path, name)

        def mk(orig, name):
            def f(self, *a, **k):
                if SCHED is not None and "t.db" in str(self) or "t_backup" in str(self):
                    if SCHED is not None:
                        SCHED.point(name + ":" + os.path.basename(str(self)))
                return orig(self, *a, **k)
            return f

        setattr(Path, name, mk(orig, name))


def make_template(d, cond):
    db = Path(d) / "t.db"
    if cond.get("default_path"):
        w = Wtp(quiet=True, quiet_output=True)       # creates its own temporary database file
    else:
        w = Wtp(db_path=db, quiet=True, quiet_output=True)
    w.add_page("Module:ustring:ustring", 828, USTRING, model="Scribunto")
    w.add_page("Module:m", 828, MOD, model="Scribunto")
    w.add_page("Template:t", 10, "T{{{1}}}")
    w.add_page("P", 0, "{{t|x}} {{#invoke:m|f|y}}")
    for i in range(4):
        w.add_page("Filler%d" % i, 0, "filler page %d" % i)   # so that an open get_all_pages() cursor really stays open
    if cond["bootstrap"]:
        w.add_page("Module:_sandbox_phase1", 828, "", model="Scribunto")
    w.db_conn.commit()
    if cond["backup"]:
        w.backup_db()
    if cond.get("default_path"):
        # keep the file (close_db_conn() deletes databases living in the temporary directory)
        w.db_conn.commit()
        w.db_conn.close()
        shutil.copy(str(w.db_path), str(db))
        for suffix in ("", "-wal", "-shm"):
            Path(str(w.db_path) + suffix).unlink(True)
    else:
        w.close_db_conn()


def table(d):
    con = _orig_connect(str(Path(d) / "t.db"))
    try:
        rows = sorted(con.execute("SELECT title, namespace_id, body, redirect_to, model FROM pages").fetchall())
    finally:
        con.close()
    return rows


def body(db, cursor=False):
    def b():
        w = Wtp(db_path=db, quiet=True, quiet_output=True)
        gen = None
        try:
            if cursor:
                gen = w.get_all_pages([0])
                next(gen)                 # a read cursor stays open while the worker goes on
            w.start_page("P")
            r1 = w.expand(w.get_page_body("P", 0) or "MISSING-PAGE")
            r2 = w.expand("{{t|z}}") + " " + w.expand("{{#invoke:m|iw}}")
            ex = w.page_exists("Template:t", 10)
            if gen is not None:
                list(gen)
            # the worker's connection must be usable afterwards: not stuck inside a transaction it never asked for
            tx = w.db_conn.in_transaction
        finally:
            w.close_db_conn()
        return [r1, r2, ex, tx]
    return b


def run_one(tmpl, prefix, n, cursor=False, tmproot=False, main_open=False):
    global SCHED
    import tempfile
    d = scratch_dir("c20x")
    old_tmp = tempfile.tempdir
    try:
        for f in os.listdir(tmpl):
            shutil.copy(os.path.join(tmpl, f), os.path.join(d, f))
        main = None
        if main_open:
            # the context that prepared the run takes the backup and stays open while the workers run (not scheduled)
            main = Wtp(db_path=Path(d) / "t.db", quiet=True, quiet_output=True)
            main.add_page("Stored by the preparing context", 0, "m")
            main.db_conn.commit()
            main.backup_db()
        s = Sched(n, prefix)
        SCHED = s
        if tmproot:
            tempfile.tempdir = d      # the shared database lies directly in the temporary directory (where Wtp() puts its own)
        try:
            s.run([body(Path(d) / "t.db", cursor) for _ in range(n)])
        finally:
            SCHED = None
            tempfile.tempdir = old_tmp
            if main is not None:
                # the context that stayed open goes on reading and writing after the workers have come and gone
                try:
                    pg = main.get_page("P", 0)
                    main.add_page("Written afterwards", 0, "w")
                    main.db_conn.commit()
                    s.main_result = "ok" if (pg is not None and pg.body) else "page P is gone for the context that stayed open"
                except Exception as e:
                    s.main_result = type(e).__name__ + ": " + str(e)[:80]
                try:
                    main.close_db_conn()
                except Exception:
                    pass
        Wtp.get_page.cache_clear()
        try:
            s.final_table = table(d)
        except Exception as e:
            s.final_table = "unreadable: " + type(e).__name__
        try:
            con = _orig_connect(str(Path(d) / "t.db"))
            s.journal_mode = con.execute("PRAGMA journal_mode").fetchone()[0]
            con.close()
        except Exception as e:
            s.journal_mode = "unreadable: " + type(e).__name__
        s.leftovers = sorted(f for f in os.listdir(d) if "backup" in f)
    finally:
        shutil.rmtree(d, ignore_errors=True)
    return s


def preemption_costs(s):
    pre = 0
    costs = []
    for i, (order, last, states, label) in enumerate(s.points):
        costs.append(pre)
        running_enabled = last is not None and order[0] == last and states[0] == "ready"
        if s.choices[i] != 0 and running_enabled:
            pre += 1
    return costs


def explore(tmpl, n, bound, acc, cond, expected, before, report, part=(0, 1)):
    """Depth-first over schedule prefixes.  part=(k, K) explores the k-th of K slices of the search tree: every slice runs
    the root schedule, then keeps every K-th of the root's alternatives (slice 0 also accounts for the root itself)."""
    stack = [[]]
    nexec = 0
    st, tr = set(), set()
    root = True
    while stack:
        prefix = stack.pop()
        report(nexec)
        s = run_one(tmpl, prefix, n, bool(cond.get("cursor")), bool(cond.get("tmproot")), bool(cond.get("main_open")))
        if root and part[0] != 0:
            # another slice accounts for the root schedule; here it only yields this slice's share of the alternatives
            root = False
            costs = preemption_costs(s)
            alts = []
            for i in range(len(s.points)):
                order, last, states, label = s.points[i]
                running_enabled = last is not None and order[0] == last and states[0] == "ready"
                for alt in range(1, len(order)):
                    if costs[i] + (1 if running_enabled else 0) <= bound:
                        alts.append(s.choices[:i] + [alt])
            stack.extend(a for j, a in enumerate(alts) if j % part[1] == part[0])
            continue
        nexec += 1
        acc.case()
        costs_all = preemption_costs(s)
        npre = 0
        for i_, (order_, last_, states_, _l) in enumerate(s.points):
            if s.choices[i_] != 0 and last_ is not None and order_[0] == last_ and states_[0] == "ready":
                npre += 1
        # (preemptions: the restore race of known finding K09 needs at least one; without any the workers run one after the other)
        case = {"condition": cond["name"], "workers": n, "schedule": list(s.choices), "preemptions": npre,
                "labels": [p[3] for p in s.points][:60]}
        if s.choices[:len(prefix)] != prefix:
            acc.violation("replay_divergence", case, s.choices[:len(prefix)], prefix)
        for cfg in s.configs:
            st.add(hash(cfg))
        for cfg, c in zip(s.configs, s.choices):
            tr.add(hash((cfg, c)))
        outcome = [s.results, s.errors]
        acc.distinct("outcomes", outcome)
        if getattr(s, "main_result", "ok") != "ok":
            acc.violation("context_that_stayed_open_still_works", case, s.main_result, "reads and writes as before")
        if s.deadlock:
            acc.violation("no_deadlock", case, "all live workers blocked on database locks", "progress")
        for i in range(n):
            if s.errors[i] is not None:
                kind = "database_locked_failure" if "locked" in s.errors[i] or "busy" in s.errors[i] else "worker_raises"
                acc.violation(kind, case, s.errors[i], "no exception")
            elif s.results[i] != expected:
                acc.violation("same_results_as_single_worker", case, s.results[i], expected)
        allowed = [before, sorted(before + [("Module:_sandbox_phase1", 828, "", None, "Scribunto")])]
        if s.final_table not in allowed:
            acc.violation("stored_pages_unchanged", case,
                          s.final_table if isinstance(s.final_table, str) else {"rows": len(s.final_table)}, {"rows": len(before)})
        if s.journal_mode != "wal" and isinstance(s.final_table, list):
            # readers block writers (and vice versa) in any other journal mode: with a real busy timeout that is the
            # property's database-locked failure as soon as a reader keeps a cursor open long enough
            acc.violation("database_in_wal_mode", case, s.journal_mode, "wal")
        acc.count("blocked_retries", s.blocked_retries)
        costs = preemption_costs(s)
        alts = []
        for i in range(len(prefix), len(s.points)):
            order, last, states, label = s.points[i]
            running_enabled = last is not None and order[0] == last and states[0] == "ready"
            for alt in range(1, len(order)):
                cost = costs[i] + (1 if running_enabled else 0)
                if cost > bound:
                    continue
                alts.append(s.choices[:i] + [alt])
        if root:
            root = False
            alts = [a for j, a in enumerate(alts) if j % part[1] == part[0]]
        stack.extend(alts)
        if nexec % 500 == 1:
            acc.sample(case)
    return nexec, st, tr


def work(payload, skip, report):
    acc = Acc(PROP)
    cond, n, bound = payload[:3]
    part = tuple(payload[3]) if len(payload) > 3 else (0, 1)
    install()
    tmpl = scratch_dir("c20t")
    try:
        make_template(tmpl, cond)
        # what a single worker obtains, and the table it leaves
        s1 = run_one(tmpl, [], 1, bool(cond.get("cursor")), bool(cond.get("tmproot")), bool(cond.get("main_open")))
        expected = s1.results[0]
        if s1.errors[0] is not None or expected is None:
            acc.violation("single_worker_baseline", {"condition": cond["name"]}, s1.errors[0], "a result")
            return acc
        if not isinstance(s1.final_table, list):
            # the pages are gone after one worker opened, worked and closed its context
            acc.case()
            acc.violation("stored_pages_unchanged", {"condition": cond["name"], "workers": 1, "schedule": []}, s1.final_table,
                          "the stored pages")
            return acc
        before = [r for r in s1.final_table if r[0] != "Module:_sandbox_phase1"] if not cond["bootstrap"] else s1.final_table
        nexec, st, tr = explore(tmpl, n, bound, acc, cond, expected, before, report, part)
        acc.sets["states"] |= st
        acc.sets["transitions"] |= tr
        acc.count("schedules:%s:n%d:b%d" % (cond["name"], n, bound), nexec)
    finally:
        shutil.rmtree(tmpl, ignore_errors=True)
    return acc


def replay(case):
    """Re-executes one recorded schedule (the choice list) on a fresh copy of the initial condition."""
    install()
    cond = [c for c in CONDITIONS if c["name"] == case["condition"]][0]
    tmpl = scratch_dir("c20r")
    out = []
    try:
        make_template(tmpl, cond)
        s1 = run_one(tmpl, [], 1, bool(cond.get("cursor")), bool(cond.get("tmproot")), bool(cond.get("main_open")))
        expected = s1.results[0]
        s = run_one(tmpl, case["schedule"], case["workers"], bool(cond.get("cursor")), bool(cond.get("tmproot")), bool(cond.get("main_open")))
        if s.deadlock:
            out.append({"oracle": "no_deadlock", "observed": "deadlock", "expected": "progress"})
        for i in range(case["workers"]):
            if s.errors[i] is not None:
                kind = "database_locked_failure" if "locked" in s.errors[i] or "busy" in s.errors[i] else "worker_raises"
                out.append({"oracle": kind, "observed": s.errors[i], "expected": "no exception"})
            elif s.results[i] != expected:
                out.append({"oracle": "same_results_as_single_worker", "observed": s.results[i], "expected": expected})
        if not isinstance(s1.final_table, list):
            # the pages are gone after one worker opened, worked and closed its context
            acc.case()
            acc.violation("stored_pages_unchanged", {"condition": cond["name"], "workers": 1, "schedule": []}, s1.final_table,
                          "the stored pages")
            return acc
        before = [r for r in s1.final_table if r[0] != "Module:_sandbox_phase1"] if not cond["bootstrap"] else s1.final_table
        if s.final_table not in (before, sorted(before + [("Module:_sandbox_phase1", 828, "", None, "Scribunto")])):
            out.append({"oracle": "stored_pages_unchanged", "observed": str(s.final_table)[:200], "expected": "unchanged"})
    finally:
        shutil.rmtree(tmpl, ignore_errors=True)
    return out


def free_running(cond, nproc, rounds):
    """Real processes released together (what a cooperative scheduler cannot see); evidence only."""
    import multiprocessing as mp

    ctx = mp.get_context("fork")
    bad = 0
    for r in range(rounds):
        tmpl = scratch_dir("c20f")
        try:
            make_template(tmpl, cond)
            barrier = ctx.Barrier(nproc)
            q = ctx.Queue()

            def child(i):
                barrier.wait()
                try:
                    q.put((i, body(Path(tmpl) / "t.db")(), None))
                except BaseException as e:  # noqa: BLE001
                    q.put((i, None, type(e).__name__ + ": " + str(e)[:80]))

            ps = [ctx.Process(target=child, args=(i,)) for i in range(nproc)]
            for p in ps:
                p.start()
            res = [q.get(timeout=120) for _ in ps]
            for p in ps:
                p.join(10)
            if any(e is not None for _, _, e in res) or len(set(str(x) for _, x, _ in res)) != 1:
                bad += 1
        finally:
            shutil.rmtree(tmpl, ignore_errors=True)
    return bad


def sequential_processes(cond, nworkers=3):
    """Deterministic part that needs REAL processes (what one process cannot model: each process maps the -shm file of a
    database on its own): the preparing context optionally stays open; the workers are separate processes that run one
    after the other; every one must get the single-process result, and the context that stayed open must go on working.
    Returns a list of (oracle, observed, expected)."""
    out = []
    d = scratch_dir("c20s")
    try:
        make_template(d, dict(cond, backup=False))
        db = Path(d) / "t.db"
        expected = None
        main = None
        if cond.get("main_open") or cond["backup"]:
            main = Wtp(db_path=db, quiet=True, quiet_output=True)
            main.add_page("Stored by the preparing context", 0, "m")   # its write-ahead log is not empty when the workers come
            main.db_conn.commit()
            main.backup_db()
            if not cond.get("main_open"):
                main.close_db_conn()
                main = None
        import json as _json

        def run_child():
            r, w = os.pipe()
            pid = os.fork()
            if pid == 0:
                try:
                    os.close(r)
                    try:
                        ans = (body(db, bool(cond.get("cursor")))(), None)
                    except BaseException as e:  # noqa: BLE001
                        ans = (None, type(e).__name__ + ": " + str(e)[:100])
                    with os.fdopen(w, "w") as f:
                        _json.dump(ans, f, default=str)
                finally:
                    os._exit(0)
            os.close(w)
            with os.fdopen(r) as f:
                data = f.read()
            os.waitpid(pid, 0)
            return tuple(_json.loads(data)) if data else (None, "worker process died")

        for k in range(nworkers):
            res, err = run_child()
            if err is not None:
                out.append(("sequential_worker_process_raises", {"worker": k, "error": err}, "no exception"))
            elif expected is None:
                expected = res
            elif res != expected:
                out.append(("sequential_worker_processes_agree", {"worker": k, "result": res}, expected))
        if main is not None:
            try:
                pg = main.get_page("P", 0)
                main.add_page("Written afterwards", 0, "w")
                main.db_conn.commit()
                if pg is None or not pg.body:
                    out.append(("context_that_stayed_open_still_works", "page P is gone", "reads and writes as before"))
            except Exception as e:
                out.append(("context_that_stayed_open_still_works", type(e).__name__ + ": " + str(e)[:80], "reads and writes as before"))
            try:
                main.close_db_conn()
            except Exception:
                pass
        Wtp.get_page.cache_clear()
    finally:
        shutil.rmtree(d, ignore_errors=True)
    return out


def work_sequential(payload, skip, report):
    acc = Acc(PROP)
    report(0)
    cond = payload[1]
    acc.case()
    acc.count("sequential_process_runs")
    for o, ob, ex in sequential_processes(cond):
        acc.violation(o, {"condition": cond["name"], "workers": "3 processes, one after the other", "preemptions": 0}, ob, ex)
    return acc


def main(run):
    q = run.tier == "quick"
    for cid, acc, hung in run_chunks(work_sequential, [("seq", c) for c in CONDITIONS], nproc=4, case_timeout=200):
        run.acc.merge(acc)
    chunks = []
    for cond in CONDITIONS:
        chunks.append((cond, 2, 2))
    if not q:
        for cond in CONDITIONS:
            # three workers only where the bootstrap page exists: where every worker also writes it, each lock wait is a
            # free (non-preempting) choice among two other workers and the tree does not finish within an hour even with one
            # preemption; those conditions are explored with two workers and up to three preemptions
            for k in range(8):     # eight slices of each search tree (see explore)
                chunks.append((cond, 2, 3, (k, 8)))
                if cond["bootstrap"]:
                    chunks.append((cond, 3, 2, (k, 8)))
    # biggest first: slice 0 of a tree holds the root's deepest alternatives
    chunks.sort(key=lambda c: (len(c) > 3 and c[3][0] != 0, -c[1], -c[2]))
    done = 0
    for cid, acc, hung in run_chunks(work, chunks, nproc=run.nproc, case_timeout=120):
        run.acc.merge(acc)
        done += 1
        if done % 20 == 0 or done == len(chunks) or run.tier != "quick":
            run.log("chunks", done, "/", len(chunks), "schedules", run.acc.n, "done:", chunks[cid][0]["name"], chunks[cid][1:], "with", acc.n)
    states = len(run.acc.sets.pop("states", ()))
    trans = len(run.acc.sets.pop("transitions", ()))
    free = {}
    for cond in CONDITIONS[:2] if q else CONDITIONS:
        for np_ in ((2, 8) if q else (2, 4, 8, 16)):
            free["%s/%d" % (cond["name"], np_)] = free_running(cond, np_, 3 if q else 10)
    cov = {
        "states": states,
        "transitions": trans,
        "traces_validated_against_impl": run.acc.n,
        "distinct_nontrivial": len(run.acc.sets.get("outcomes", ())),
        "rule": "every schedule of N=2 worker threads with <= 2 preemptions%s, for 7 initial conditions (backup file present/absent x "
                "sandbox bootstrap page present/absent; database created through the default temporary path; workers holding a "
                "get_all_pages() cursor open); scheduling points at every sqlite3 connect/execute/executescript/commit/"
                "close/backup of the worker's own connection and at Path.exists/unlink/rename on the database and backup paths; "
                "plus, for every condition, three worker PROCESSES run one after the other (with the preparing context still open where the condition says so); "
                "a state is a distinct tuple (next operation and status of every worker) seen at a scheduling point, a transition a "
                "distinct (state, chosen worker); every schedule is an execution of the real code on a fresh copy of the database "
                "directory; prefix replay divergence is a hard error" % ("" if q else "; N=2 with <= 3 preemptions; N=3 with <= 2 under the seven conditions in which the bootstrap page exists"),
        "free_running_failures(evidence only)": free,
        "exhaustive": True,
        "bound": "preemptions <= %d" % (2 if q else 3),
    }
    assumptions = [
        "separate connections inside one process obey the same SQLite file-locking rules as separate processes (unix VFS), which makes the in-process model faithful",
        "timeout=0 plus retry-when-rescheduled models SQLite's busy handler; a statement that still fails when every other worker has finished is the property's database-locked failure",
        "unsynchronised in-memory state is not shared between workers (each has its own context and Lua runtime)",
    ]
    return run.finish(cov, assumptions, replay_fn=None)
