"""C16  The expansion path and message lists are consistent after every call.

Model checking of the push/pop discipline of Wtp.expand_stack on the real
implementation: every page  f,  f g,  f(g)  over an alphabet of call forms
(one per push site in core.py / luaexec.py) x every option set, via expand()
and parse().  The context's expand_stack is replaced by a recording list so
every path (stack content) visited is a state and every push/pop an edge.
"""
from __future__ import annotations

import itertools
import re

from ..fixtures import add_ustring, close_ctx, new_ctx
from ..pool import run_chunks
from ..runner import Acc

PROP = "C16"
LEVEL = "model_checking"
MSG_KEYS = {"msg", "trace", "title", "section", "subsection", "called_from", "path"}
LISTS = ("errors", "warnings", "debugs", "notes", "wiki_notices")

MOD_M = r"""
local e = {}
function e.ok(frame) return "ok" .. (frame.args[1] or "") end
function e.err(frame) error("boom") end
function e.nested(frame) return frame:preprocess("{{#invoke:m|ok|q}}") end
function e.pp(frame) return frame:preprocess("{{a|x}}") end
function e.et(frame) return frame:expandTemplate{title="a", args={"y"}} end
function e.loopt(frame) return frame:expandTemplate{title="loop", args={}} end
function e.cpf(frame) return frame:callParserFunction("lc", "ABC") end
function e.tag(frame) return frame:extensionTag("ref", "zz") end
function e.perr(frame) local ok, v = pcall(error, "inner") return "caught" end
function e.slow(frame) while true do end end
function e.cpfbad(frame) return frame:callParserFunction('#expr', '1/0/2') end
function e.parent(frame) local p = frame:getParent() return p and (p.args[1] or "-") or "noparent" end
-- every frame method that expands something, called twice in one invocation / with the special-cased tag names
function e.tag2(frame) return frame:extensionTag("ref", "a") .. frame:extensionTag("ref", "b") end
function e.tagnw(frame) return frame:extensionTag("nowiki", "[[x]]") end
function e.tagnw2(frame) return frame:extensionTag("nowiki", "a") .. frame:extensionTag("nowiki", "b") end
function e.tagpre(frame) return frame:extensionTag("pre", "p") .. frame:extensionTag{name="ref", content="c", args={name="n"}} end
function e.pp2(frame) return frame:preprocess("{{a|1}}") .. frame:preprocess("{{missing}}") end
function e.et2(frame) return frame:expandTemplate{title="a", args={"1"}} .. frame:expandTemplate{title="n", args={k="2"}} end
function e.cpf2(frame) return frame:callParserFunction("lc", "A") .. frame:callParserFunction{name="#if", args={"1", "y", "n"}} end
function e.child(frame) local c = frame:newChild{title="T", args={"ca"}} return c:preprocess("{{a|{{{1}}}}}") .. (c.args[1] or "") end
function e.pv(frame) return frame:newParserValue("{{a|pv}}"):expand() .. frame:newTemplateParserValue{title="a", args={"tv"}}:expand() end
function e.getarg(frame) local a = frame:getArgument(1) return a and a:expand() or "noarg" end
function e.pairs2(frame) local n = 0 for k, v in frame:argumentPairs() do n = n + 1 end return tostring(n) end
return e
"""
MOD_BAD = "local e = {} function e.f( return e"

LIB = {
    "Template:a": "A{{{1|}}}",
    "Template:n": "N{{{k|d}}}",
    "Template:loop": "{{loop}}",
    "Template:l2": "{{l3}}",
    "Template:l3": "{{l2}}",
    "Template:inv": "{{#invoke:m|parent}}",
    "Template:deflt": "{{{1|{{a|dv}}}}}",
}

# call forms; '@' is the hole (argument position) another form can be nested in
FORMS = [
    "{{a|@}}", "{{n|k=@}}", "{{n|@=v}}", "{{missing|@}}", "{{loop|@}}", "{{l2}}",
    "{{inv|@}}", "{{deflt}}", "{{{p|@}}}", "{{{p}}}", "[[L|@]]", "[http://x.y @]",
    "<nowiki>{{a|@}}</nowiki>", "{{a<nowiki/>|@}}",
    "{{#if:@|y|n}}", "{{#if:1|@|n}}", "{{#ifeq:@|1|y|n}}", "{{#switch:@|a=1|#default=d}}",
    "{{#expr:1+}}", "{{#expr:1+1}}", "{{#unknownfn:@}}", "{{lc:@}}", "{{PAGENAME}}",
    "{{#tag:ref|@}}", "{{safesubst:a|@}}", "{{#len:@}}",
    "{{#invoke:m|ok|@}}", "{{#invoke:m|err|@}}", "{{#invoke:nomod|f}}", "{{#invoke:m|nofn}}",
    "{{#invoke:m}}", "{{#invoke:m|nested}}", "{{#invoke:m|pp}}", "{{#invoke:m|et}}",
    "{{#invoke:m|loopt}}", "{{#invoke:m|cpf}}", "{{#invoke:m|tag}}", "{{#invoke:m|perr}}",
    "{{#invoke:m|tag2}}", "{{#invoke:m|tagnw}}", "{{#invoke:m|tagnw2}}", "{{#invoke:m|tagpre}}", "{{#invoke:m|pp2}}", "{{#invoke:m|et2}}",
    "{{#invoke:m|cpf2}}", "{{#invoke:m|child}}", "{{#invoke:m|pv}}", "{{#invoke:m|getarg|@}}", "{{#invoke:m|pairs2|@|k=v}}",
    "{{#invoke:bad|f}}", "{{#invoke:m|cpfbad}}", "{{#ausdruck:1+}}", "{{#ausdruck:1/0/2|@}}", "{{#expr:1/0/2}}", "{{a|²=@}}",
    # transclusion written with a leading colon (a page of the main namespace, a template by its full name, a missing page)
    "{{:Intro|@}}", "{{:Template:a|@}}", "{{:Nopage|@}}", "{{Template:a|@}}",
]
QUICK_FORMS = [f for i, f in enumerate(FORMS) if i % 2 == 0 or "invoke" in f or f == "{{#if:1|@|n}}" or f.startswith("{{:")]
SLOW_FORM = "{{#invoke:m|slow}}"
# nested far deeper than any limit inside a parser function's argument: the recursion error is contained by the function
# (the first two nest parameters beyond the interpreter's recursion limit; the others reach the depth limit of the
# expansion itself - calls nested 60 deep - outside any Lua invocation)
DEEP_FORMS = ["{{#if:1|" * 60 + "x" + "}}" * 60 + " {{a|1}}", "{{a|" * 60 + "x" + "}}" * 60 + " {{#if:1|y}}",
              "{{#if:" * 55 + "x" + "|y|n}}" * 55, "{{a|k=" * 52 + "x" + "}}" * 52 + "{{loop}}",
              "{{#if:1|" + "{{{a|" * 1200 + "x" + "}}}" * 1200 + "}}", "{{#ifeq:" + "{{{a|" * 1100 + "x" + "}}}" * 1100 + "|x|y|n}} {{a|1}}"]

HOOKS = ("none", "tf_none", "tf_mark", "ptf_none", "ptf_mark", "tf_raise", "ptf_raise")


def option_sets():
    out = []
    for pf, inv, pre, hook in itertools.product((True, False), (True, False), (False, True), HOOKS):
        out.append({"mode": "expand", "expand_parserfns": pf, "expand_invoke": inv, "pre_expand": pre, "hook": hook})
    for kind, hook in itertools.product(("expand_all", "pre_expand", "plain"), HOOKS):
        out.append({"mode": "parse", "kind": kind, "hook": hook})
    return out


def pages(forms):
    out = []
    for f in forms:
        out.append(f.replace("@", "z"))
    for f, g in itertools.product(forms, repeat=2):
        out.append(f.replace("@", "z") + " " + g.replace("@", "z"))
        if "@" in f:
            out.append(f.replace("@", g.replace("@", "z")))
    return out


class RecList(list):
    """expand_stack replacement recording every visited path and edge."""

    __slots__ = ("rec",)

    def append(self, x):
        before = tuple(self)
        list.append(self, x)
        self.rec(before, "push", tuple(self))

    def pop(self, *a):
        before = tuple(self)
        r = list.pop(self, *a)
        self.rec(before, "pop", tuple(self))
        return r


def make_ctx():
    ctx = new_ctx(lua=True, parser_function_aliases={"#ausdruck": "#expr"})
    for t, b in LIB.items():
        ctx.add_page(t, 10, b)
    ctx.add_page("Intro", 0, "I{{{1|}}}")
    ctx.add_page("Module:m", 828, MOD_M, model="Scribunto")
    ctx.add_page("Module:bad", 828, MOD_BAD, model="Scribunto")
    ctx.db_conn.commit()
    return ctx


def _hooks(name):
    tf = ptf = None
    if name == "tf_none":
        tf = lambda n, a: None  # noqa: E731
    elif name == "tf_mark":
        tf = lambda n, a: "M[" + n + "]"  # noqa: E731
    elif name == "ptf_none":
        ptf = lambda n, a, t: None  # noqa: E731
    elif name == "ptf_mark":
        ptf = lambda n, a, t: "P[" + n + "]"  # noqa: E731
    # a failing user hook: where the library contains the failure (inside a parser function's arguments) the call returns
    elif name == "tf_raise":
        def tf(n, a):
            raise ValueError("hook failed")
    elif name == "ptf_raise":
        def ptf(n, a, t):
            raise KeyError("hook failed")
    return tf, ptf


def do_call(ctx, page, opts, timeout=None):
    tf, ptf = _hooks(opts["hook"])
    if opts["mode"] == "expand":
        return ctx.expand(page, pre_expand=opts["pre_expand"], template_fn=tf, post_template_fn=ptf,
                          expand_parserfns=opts["expand_parserfns"], expand_invoke=opts["expand_invoke"],
                          timeout=timeout)
    kind = opts["kind"]
    root = ctx.parse(page, pre_expand=(kind == "pre_expand"), expand_all=(kind == "expand_all"),
                     template_fn=tf, post_template_fn=ptf)
    return ctx.node_to_wikitext(root)


def check_messages(ctx, title, section, subsection, out):
    for name in LISTS:
        for rec in getattr(ctx, name):
            if set(rec.keys()) != MSG_KEYS:
                out.append(("msg_keys", {"list": name, "keys": sorted(rec.keys())}, sorted(MSG_KEYS)))
            elif rec["title"] != title or rec["section"] != (section or "") or rec["subsection"] != (subsection or ""):
                out.append(("msg_location", {"list": name, "title": rec["title"], "section": rec["section"],
                                             "subsection": rec["subsection"], "msg": rec["msg"][:80]},
                            {"title": title, "section": section or "", "subsection": subsection or ""}))
            elif not isinstance(rec["path"], tuple) or not isinstance(rec["msg"], str):
                out.append(("msg_keys", {"list": name, "types": [type(rec["path"]).__name__]}, "tuple path, str msg"))


def run_case(ctx, case, graph=None):
    """Returns list of (oracle, observed, expected)."""
    out = []
    title = case.get("title", "Tt")
    page, opts, reps = case["page"], case["opts"], case.get("reps", 1)
    section, subsection = case.get("section"), case.get("subsection")
    ctx.start_page(title)
    for name in LISTS:
        if getattr(ctx, name) != [] or ctx.to_return()[name] != []:
            out.append(("lists_cleared_by_start_page", {name: len(getattr(ctx, name))}, "empty"))
    if section is not None:
        ctx.start_section(section)
    if subsection is not None:
        ctx.start_subsection(subsection)
    maxdepth = [0]
    if graph is not None:
        def rec(b, op, a, _g=graph, _m=maxdepth):
            _g[0].add(hash(a))
            _g[1].add(hash((b, op, a)))
            if len(a) > _m[0]:
                _m[0] = len(a)
        rl = RecList(ctx.expand_stack)
        rl.rec = rec
        ctx.expand_stack = rl
        graph[0].add(hash(tuple(rl)))
    before = list(ctx.expand_stack)
    first = None
    raised = None
    for i in range(reps):
        try:
            res = do_call(ctx, page, opts, timeout=case.get("timeout"))
        except Exception as e:  # totality is C05's business; here only "calls that return"
            raised = type(e).__name__
            break
        if list(ctx.expand_stack) != before:
            out.append(("stack_restored", {"after_call": i + 1, "stack": list(ctx.expand_stack)[:12],
                                           "len": len(ctx.expand_stack)}, before))
            break
        # strip markers carry a per-page serial number by design: compare modulo the number
        res = re.sub(r"(UNIQ--\w+-)[0-9A-Fa-f]{8}(-QINU)", r"\1N\2", res) if isinstance(res, str) else res
        if first is None:
            first = res
        elif res != first:
            out.append(("repeat_same_output", {"call": i + 1, "got": res[:200]}, first[:200]))
            break
    if raised is None and reps > 1 and page.count("{{") + page.count("[[") <= 3:
        for name in LISTS:
            for r in getattr(ctx, name):
                if "too deep recursion" in r["msg"]:
                    out.append(("no_bogus_depth", {"list": name, "msg": r["msg"][:100], "reps": reps}, "none"))
                    break
    if raised is None and reps > 1:
        # after many calls on the page (failing ones included) a flat page with a little nesting is still not "too deep"
        try:
            probe = ctx.expand("{{a|{{a|{{a|x}}}}}} {{#if:1|{{a|{{#if:1|y}}}}}}")
        except Exception as e:
            probe = "EXC " + type(e).__name__
        if "too deep" in probe or probe.startswith("EXC") or any("too deep recursion" in r["msg"] for n_ in LISTS for r in getattr(ctx, n_)
                                                                  if page.count("{{") + page.count("[[") <= 3):
            out.append(("no_bogus_depth_after_repeated_calls", {"probe": probe[:200], "reps": reps}, "the nested calls expanded"))
    check_messages(ctx, title, section, subsection, out)
    if case.get("then_plain") and raised is None:
        # the same title started again without a section: records must carry the current (empty) section
        ctx.start_page(title)
        try:
            do_call(ctx, page, opts, timeout=case.get("timeout"))
        except Exception as e:
            raised = type(e).__name__
        check_messages(ctx, title, None, None, out)
    if maxdepth[0] > 110 and page.count("{{{a|") < 100:   # (a page that is itself nested deeper than the limit is exempt)
        out.append(("depth_bound", maxdepth[0], "<= 110"))
    ctx.start_page(title)
    for name in LISTS:
        if getattr(ctx, name) != []:
            out.append(("lists_cleared_by_start_page", {name: len(getattr(ctx, name))}, "empty"))
    return out, raised


def work(payload, skip, report):
    acc = Acc(PROP)
    ctx = make_ctx()
    graph = (set(), set())
    for i, case in enumerate(payload):
        if i in skip:
            acc.violation("returns_in_time", case, "hang", "returns")
            continue
        report(i)
        res, raised = run_case(ctx, case, graph)
        acc.case()
        if raised:
            acc.count("raised_" + raised)
        for oracle, obs, exp in res:
            acc.violation(oracle, case, obs, exp)
        if i % 997 == 0:
            acc.sample(case)
    acc.sets["states"] = graph[0]
    acc.sets["transitions"] = graph[1]
    close_ctx(ctx)
    return acc


def replay(case):
    ctx = make_ctx()
    try:
        res, _ = run_case(ctx, case, (set(), set()))
    finally:
        close_ctx(ctx)
    return [{"oracle": o, "observed": ob, "expected": ex} for o, ob, ex in res]


def build_cases(tier):
    forms = FORMS if tier == "thorough" else QUICK_FORMS
    opts = option_sets()
    cases = []
    for p in pages(forms):
        for o in opts:
            cases.append({"page": p, "opts": o})
    # repetition slice: single forms, 300 calls without start_page
    reps = 300
    for f in FORMS:
        p = f.replace("@", "z")
        for o in opts:
            if o["hook"] in ("none", "tf_mark"):
                cases.append({"page": p, "opts": o, "reps": reps, "section": "Sec", "subsection": "Sub"})
    # calls that fail inside a parser function (a raising hook; the failure is reported in-band): 150 of them on one page
    for p in ("{{#if:1|{{a|z}}|n}}", "{{#switch:x|x={{a|{{a|z}}}}}}", "{{#if:1|{{n|k={{a|z}}}}}} {{a|1}}"):
        for o in opts:
            if o["hook"] in ("tf_raise", "ptf_raise") and o.get("expand_parserfns", True):
                cases.append({"page": p, "opts": o, "reps": 150})
    for p in DEEP_FORMS:
        for o in opts:
            if o["hook"] == "none" and (o["mode"] == "parse" or (o["expand_parserfns"] and o["expand_invoke"])):
                cases.append({"page": p, "opts": o, "reps": 3})
    # restart slice: page with section/subsection, then the same title started again without them
    for f in FORMS + ["<i>x\n<b>y", "{{missing}}<foo>"]:
        p = f.replace("@", "z")
        for o in opts:
            if o["hook"] == "none":
                cases.append({"page": p, "opts": o, "section": "Sec", "subsection": "Sub", "then_plain": True})
    # message location slice with section set, depth-3 nesting (thorough)
    if tier == "thorough":
        holes = [f for f in FORMS if "@" in f]
        core = [f for f in holes if any(s in f for s in ("{{a|", "#if:@", "invoke:m|ok", "{{{p|", "[[L"))]
        for f, g, h in itertools.product(core, holes, FORMS):
            p = f.replace("@", g.replace("@", h.replace("@", "z")))
            for o in opts:
                if o["hook"] == "none":
                    cases.append({"page": p, "opts": o, "section": "S"})
    # timeout slice (costs >= 1 s each)
    slow_opts = [o for o in opts if o["mode"] == "expand" and o["hook"] == "none" and o["expand_parserfns"]
                 and o["expand_invoke"]]
    for o in slow_opts:
        cases.append({"page": SLOW_FORM, "opts": o, "timeout": 1})
        cases.append({"page": "{{a|" + SLOW_FORM + "}} {{#invoke:m|ok|after}}", "opts": o, "timeout": 1})
    return cases


def main(run):
    cases = build_cases(run.tier)
    # slow (timeout) cases last and in their own chunks
    fast = [c for c in cases if "timeout" not in c]
    slow = [c for c in cases if "timeout" in c]
    n = 64
    chunks = [fast[i::n] for i in range(n)] + [[c] for c in slow]
    chunks = [c for c in chunks if c]
    for cid, acc, hung in run_chunks(work, chunks, nproc=run.nproc, case_timeout=30):
        run.acc.merge(acc)
    states = len(run.acc.sets.pop("states", ()))
    trans = len(run.acc.sets.pop("transitions", ()))
    cov = {
        "states": states,
        "transitions": trans,
        "traces_validated_against_impl": run.acc.n,
        "distinct_nontrivial": states,
        "rule": "pages f, f g, f(g) over %d call forms x %d option sets (expand with all switch/hook combinations, "
                "parse plain/pre_expand/expand_all); plus each single form repeated 300x without start_page; "
                "a state is a distinct content of Wtp.expand_stack visited (recorded by a list subclass on the real "
                "context), a transition a distinct push/pop edge; every trace is an execution of the real expand()/parse()"
                % (len(FORMS if run.tier == "thorough" else QUICK_FORMS), len(option_sets())),
        "exhaustive": True,
        "bound": "nesting depth 2 (quick) / 3 over a core (thorough); 300 repetitions",
    }
    assumptions = [
        "Scribunto ustring library replaced by a pure-Lua stand-in page (Module:ustring:ustring); Lua executes for real",
        "calls that raise are not judged here (totality is C05); they are counted in counters.raised_*",
    ]
    return run.finish(cov, assumptions, replay_fn=replay)
