"""Reference transclusion semantics (written from the MediaWiki rules in the C04
statement, not from core.py) + the expansion-AST grammar and its renderer.

AST:  ("T", s) | ("P", name, default|None) | ("C", tpl, [(key|None, E)...]) |
      ("IF", c, a, b) | ("IFEQ", x, y, a, b) | ("SW", x, case, val, dflt) | ("SEQ", [E...])
"""
from __future__ import annotations

import itertools
import re

MARKERS = ("*", ";", ":", "#", "{|")


def render(e):
    t = e[0]
    if t == "T":
        return e[1]
    if t == "P":
        return "{{{" + e[1] + ("|" + render(e[2]) if e[2] is not None else "") + "}}}"
    if t == "C":
        return "{{" + e[1] + "".join("|" + ((k + "=") if k is not None else "") + render(v) for k, v in e[2]) + "}}"
    if t == "IF":
        return "{{#if:" + render(e[1]) + "|" + render(e[2]) + "|" + render(e[3]) + "}}"
    if t == "IFEQ":
        return "{{#ifeq:" + render(e[1]) + "|" + render(e[2]) + "|" + render(e[3]) + "|" + render(e[4]) + "}}"
    if t == "SW":
        return "{{#switch:" + render(e[1]) + "|" + e[2] + "=" + render(e[3]) + "|#default=" + render(e[4]) + "}}"
    if t == "SWG":
        # fall-through group of bare labels, then label=value, then a bare last argument as default
        return "{{#switch:" + render(e[1]) + "|" + "|".join(e[2][:-1]) + ("|" if len(e[2]) > 1 else "") + e[2][-1] + "=" + render(e[3]) \
            + "|" + render(e[4]) + "}}"
    if t == "SEQ":
        return "".join(render(x) for x in e[1])
    raise ValueError(t)


def addnl(s):
    return "\n" + s if s.startswith(MARKERS) else s


def canon_key(k):
    k = k.strip()   # names are trimmed, inner blanks are kept (MediaWiki)
    if k.isdigit() and int(k) > 0:
        return int(k)
    return k


WRAPPERS = {
    "none": "%s",
    "noinclude": "<noinclude>DOC {{{1}}}</noinclude>%s",
    "includeonly": "<includeonly>%s</includeonly>",
    "onlyinclude": "junk {{{1}}}<onlyinclude>%s</onlyinclude>junk",
    "comment": "%s<!-- c {{{1}}} -->",
    "unclosed_noinclude": "%s<noinclude>tail {{{1}}}",
    "two_onlyinclude": "a<onlyinclude>%s</onlyinclude>b<onlyinclude>!</onlyinclude>c",
    # two inclusion features in one body
    "includeonly_in_onlyinclude": "doc<onlyinclude><includeonly>%s</includeonly></onlyinclude>more doc",
    "noinclude_in_onlyinclude": "doc<onlyinclude>%s<noinclude>hidden {{{1}}}</noinclude></onlyinclude>",
    "includeonly_and_noinclude": "<includeonly>%s</includeonly><noinclude>shown only on the page {{{1}}}</noinclude>",
    "comment_in_includeonly": "<includeonly><!-- c -->%s</includeonly>",
}


def wrapped_result_suffix(w):
    return "!" if w == "two_onlyinclude" else ""


class Loop(Exception):
    pass


def ev(e, frame, lib, path=(), hooks=None):
    """Evaluates e in `frame` (dict of the enclosing template's arguments or None at page level).
    lib: name -> (body AST, wrapper name)."""
    t = e[0]
    if t == "T":
        return e[1]
    if t == "SEQ":
        return "".join(ev(x, frame, lib, path, hooks) for x in e[1])
    if t == "P":
        key = canon_key(e[1])
        if frame is not None and key in frame:
            return frame[key]
        if e[2] is not None:
            return ev(e[2], frame, lib, path, hooks)
        return "{{{" + str(key) + "}}}"
    if t == "IF":
        c = ev(e[1], frame, lib, path, hooks).strip()
        return addnl(ev(e[2] if c else e[3], frame, lib, path, hooks).strip())
    if t == "IFEQ":
        x = ev(e[1], frame, lib, path, hooks).strip()
        y = ev(e[2], frame, lib, path, hooks).strip()
        return addnl(ev(e[3] if x == y else e[4], frame, lib, path, hooks).strip())
    if t == "SW":
        x = ev(e[1], frame, lib, path, hooks).strip()
        if e[2].strip() == x:
            return addnl(ev(e[3], frame, lib, path, hooks).strip())
        return addnl(ev(e[4], frame, lib, path, hooks).strip())
    if t == "SWG":
        x = ev(e[1], frame, lib, path, hooks).strip()
        if x in [l.strip() for l in e[2]]:
            return addnl(ev(e[3], frame, lib, path, hooks).strip())
        return addnl(ev(e[4], frame, lib, path, hooks).strip())
    if t == "C":
        args = {}
        num = 1
        for k, v in e[2]:
            val = ev(v, frame, lib, path, hooks)
            if k is None:
                args[num] = val
                num += 1
            else:
                args[canon_key(k)] = val.strip()
        name = e[1]
        if hooks is not None:
            r = hooks(name, args)
            if r is not None:
                return addnl(r)
        if name not in lib:
            return addnl("[[:Template:" + name + "]]")
        body, w = lib[name]
        res = ev(body, args, lib, path + (name,), hooks) + wrapped_result_suffix(w)
        return addnl(res)
    raise ValueError(t)


def body_text(body, w):
    return WRAPPERS[w] % render(body)


# ------------------------------------------------------------------ enumeration

class Grammar:
    def __init__(self, atoms, names, keys, control=True, maxargs=2):
        self.atoms, self.names, self.keys = atoms, names, keys
        self.control = control
        self.maxargs = maxargs
        self.memo = {}

    def exprs(self, size, inbody, callees, seq=True):
        key = (size, inbody, tuple(callees), seq)
        if key in self.memo:
            return self.memo[key]
        out = []
        if size == 1:
            out += [("T", a) for a in self.atoms]
            out += [("P", n, None) for n in self.names]
            out += [("C", c, []) for c in list(callees) + ["missing"]]
        else:
            for n in self.names:
                for d in self.exprs(size - 1, inbody, callees):
                    out.append(("P", n, d))
            for c in list(callees) + (["missing"] if size <= 2 else []):
                for nargs in range(1, self.maxargs + 1):
                    for split in itertools.product(range(1, size), repeat=nargs):
                        if sum(split) != size - 1:
                            continue
                        for keys in itertools.product(self.keys, repeat=nargs):
                            named = [k for k in keys if k is not None]
                            if len(set(canon_key(k) for k in named)) != len(named) and nargs > 2:
                                continue
                            for vals in itertools.product(*[self.exprs(s, inbody, callees) for s in split]):
                                out.append(("C", c, list(zip(keys, vals))))
            if self.control and size >= 4:
                for split in itertools.product(range(1, size), repeat=3):
                    if sum(split) != size - 1:
                        continue
                    for vals in itertools.product(*[self.exprs(s, inbody, callees) for s in split]):
                        out.append(("IF",) + vals)
                        out.append(("SW", vals[0], "x", vals[1], vals[2]))
                        if size == 4:
                            out.append(("SWG", vals[0], ["x", "y", "z"], vals[1], vals[2]))
            if self.control and size >= 5:
                for split in itertools.product(range(1, size), repeat=4):
                    if sum(split) != size - 1:
                        continue
                    for vals in itertools.product(*[self.exprs(s, inbody, callees) for s in split]):
                        out.append(("IFEQ",) + vals)
            if seq:
                for a in range(1, size):
                    for x in self.exprs(a, inbody, callees, seq=False):
                        for y in self.exprs(size - a, inbody, callees, seq=False):
                            out.append(("SEQ", [x, y]))
        self.memo[key] = out
        return out


def mentions(e, name):
    t = e[0]
    if t == "T":
        return False
    if t == "P":
        return e[2] is not None and mentions(e[2], name)
    if t == "C":
        return e[1] == name or any(mentions(v, name) for _, v in e[2])
    if t == "SEQ":
        return any(mentions(x, name) for x in e[1])
    if t in ("SW", "SWG"):
        return any(mentions(x, name) for x in (e[1], e[3], e[4]))
    return any(mentions(x, name) for x in e[1:])


def depth(e):
    t = e[0]
    if t == "T":
        return 0
    if t == "P":
        return 1 + (depth(e[2]) if e[2] is not None else 0)
    if t == "C":
        return 1 + max([depth(v) for _, v in e[2]] + [0])
    if t == "SEQ":
        return max(depth(x) for x in e[1])
    if t in ("SW", "SWG"):
        return 1 + max(depth(x) for x in (e[1], e[3], e[4]))
    return 1 + max(depth(x) for x in e[1:])
