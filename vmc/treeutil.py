"""Parse-tree helpers: canonical dump, well-formedness oracle, token alphabet."""
from __future__ import annotations

from wikitextprocessor import NodeKind, WikiNode
from wikitextprocessor.common import MAGIC_LAST, MAGIC_NOWIKI

K = NodeKind
ARGK = (K.LINK, K.TEMPLATE, K.TEMPLATE_ARG, K.PARSER_FN, K.URL)
LEVELK = {K.LEVEL1: 1, K.LEVEL2: 2, K.LEVEL3: 3, K.LEVEL4: 4, K.LEVEL5: 5, K.LEVEL6: 6}

# One representative per alternative of parser.token_list, plus the bracket
# tokens handled by Wtp._encode, nowiki, comments, pre, URL, magic word,
# list/heading/table markers, HTML tags of each content class, text, blanks.
TOKENS = [
    "a", " ", "\n", "''", "'''", "'''''", "==", "=", "===", "*", "#", ":", ";", "----",
    "{|", "|}", "|-", "|+", "|", "||", "!", "!!", "{||",
    "[[", "]]", "[", "]", "{{", "}}", "{{{", "}}}",
    "<b>", "</b>", "<div>", "</div>", "<br>", "<li>", "</li>", "<table>", "<td>", "<ref>", "</ref>",
    "<pre>", "</pre>", "<nowiki>", "</nowiki>", "<nowiki/>", "<!--", "-->",
    "http://x.y", "[http://x.y", "__NOTOC__", "x=1", "<<a>>", "<span class=\"c\">", "</span>", "#if:",
]
CORE = [
    "a", " ", "\n", "''", "'''", "==", "*", "#", ":", ";", "----", "{|", "|}", "|-", "|", "||", "!",
    "[[", "]]", "[", "]", "{{", "}}", "{{{", "}}}", "<b>", "</b>", "<pre>", "</pre>", "<ref>", "</ref>",
    "<nowiki>", "</nowiki>", "<!--", "-->", "http://x.y", "=", "<li>", "|+", "<td>",
]


def is_magic(s: str) -> bool:
    return any(MAGIC_NOWIKI <= ord(c) <= MAGIC_LAST for c in s)


def _chk_list(lst, where, out):
    prev_str = False
    if not isinstance(lst, list):
        out.append(where + ":notlist")
        return
    for x in lst:
        if isinstance(x, str):
            if x == "":
                out.append(where + ":emptystr")
            if prev_str:
                out.append(where + ":adjacent_str")
            if is_magic(x):
                out.append(where + ":placeholder_char")
            prev_str = True
        elif isinstance(x, WikiNode):
            prev_str = False
        else:
            out.append(where + ":badtype")


def wellformed(node, parent=None, out=None, depth=0):
    """Returns the list of well-formedness complaints for the tree at `node`."""
    if out is None:
        out = []
    if depth > 400:
        out.append("tree deeper than 400")
        return out
    k = node.kind
    _chk_list(node.children, k.name + ".children", out)
    pk = parent.kind if parent is not None else None
    if k == K.LIST_ITEM and pk != K.LIST:
        out.append("LIST_ITEM under " + (pk.name if pk else "None"))
    if k in (K.TABLE_ROW, K.TABLE_CAPTION) and pk != K.TABLE:
        out.append(k.name + " under " + (pk.name if pk else "None"))
    if k in (K.TABLE_CELL, K.TABLE_HEADER_CELL) and pk != K.TABLE_ROW:
        out.append(k.name + " under " + (pk.name if pk else "None"))
    if k == K.LIST:
        for c in node.children:
            if not (isinstance(c, WikiNode) and c.kind == K.LIST_ITEM):
                out.append("LIST child not item: " + (c.kind.name if isinstance(c, WikiNode) else "str"))
            elif c.sarg != node.sarg:
                out.append("LIST_ITEM prefix differs from its LIST")   # documented: the list's sarg is the prefix of all its items
    if k in ARGK:
        if k != K.LINK and node.children:
            out.append(k.name + " has children")
        if not isinstance(node.largs, list) or not all(isinstance(a, list) for a in node.largs):
            out.append(k.name + " largs shape")
        else:
            if not node.largs:
                out.append(k.name + " empty largs")
            for a in node.largs:
                _chk_list(a, k.name + ".largs", out)
    elif k in LEVELK:
        if not isinstance(node.largs, list) or len(node.largs) != 1:
            out.append("LEVEL title lists: %r" % (len(node.largs) if isinstance(node.largs, list) else "?"))
        for a in node.largs if isinstance(node.largs, list) else []:
            _chk_list(a, "LEVEL.largs", out)
    elif k == K.ROOT:
        pass
    else:
        if node.largs:
            out.append(k.name + " has largs")
    if k in (K.LIST, K.LIST_ITEM, K.HTML, K.MAGIC_WORD):
        if not isinstance(node.sarg, str) or not node.sarg:
            out.append(k.name + " empty sarg")
    elif node.sarg:
        out.append(k.name + " has sarg")
    if isinstance(node.sarg, str) and is_magic(node.sarg):
        out.append("sarg placeholder_char")
    if not isinstance(node.attrs, dict):
        out.append("attrs not dict")
    else:
        for kk, v in node.attrs.items():
            if not isinstance(kk, str) or not isinstance(v, str):
                out.append("attrs type")
            elif is_magic(kk) or is_magic(v):
                out.append("attrs placeholder_char")
    if node.definition is not None:
        _chk_list(node.definition, "definition", out)
    if node.temp_head is not None:
        out.append("temp_head left")
    subs = [node.children]
    if isinstance(node.largs, list):
        subs += [a for a in node.largs if isinstance(a, list)]
    if node.definition:
        subs.append(node.definition)
    for lst in subs:
        if isinstance(lst, list):
            for c in lst:
                if isinstance(c, WikiNode):
                    wellformed(c, node, out, depth + 1)
    return out


def dump(node, text=True):
    """Canonical JSON-able dump of a tree (or str / list)."""
    if isinstance(node, str):
        return node if text else "s"
    if isinstance(node, (list, tuple)):
        return [dump(x, text) for x in node]
    d = [node.kind.name]
    if node.sarg:
        d.append({"sarg": node.sarg})
    if node.largs:
        d.append({"largs": [dump(a, text) for a in node.largs]})
    if node.attrs:
        d.append({"attrs": dict(node.attrs)})
    if node.definition is not None:
        d.append({"def": dump(node.definition, text)})
    if node.children:
        d.append(dump(node.children, text))
    return d


def shape(node):
    """Kind skeleton without text (for distinct-shape counting)."""
    if isinstance(node, str):
        return "s"
    if isinstance(node, (list, tuple)):
        return [shape(x) for x in node]
    return [node.kind.value, [shape(a) for a in node.largs] if node.largs else 0, shape(node.children)]


def kinds(node, acc=None):
    if acc is None:
        acc = set()
    if isinstance(node, WikiNode):
        acc.add(node.kind)
        for c in node.children:
            kinds(c, acc)
        for a in node.largs:
            for c in a:
                kinds(c, acc)
        if node.definition:
            for c in node.definition:
                kinds(c, acc)
    return acc
