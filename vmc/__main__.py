import argparse
import atexit
import importlib
import json
import os
import shutil
import sys
import tempfile


def _tuplify(x):
    """JSON turned the tuples of a chunk payload into lists; work functions unpack and hash them as tuples."""
    if isinstance(x, list):
        return tuple(_tuplify(y) for y in x)
    return x


def main():
    ap = argparse.ArgumentParser(prog="vmc")
    ap.add_argument("prop")
    ap.add_argument("--tier", default=os.environ.get("VERIF_TIER") or "quick", choices=["quick", "thorough"])
    ap.add_argument("--replay")
    ap.add_argument("--nproc", type=int, default=int(os.environ.get("VMC_NPROC", "0")) or None)
    args = ap.parse_args()

    # determinism: fixed hash seed (needs a re-exec), UTC, private scratch dir
    if os.environ.get("PYTHONHASHSEED") != "0":
        env = dict(os.environ, PYTHONHASHSEED="0", TZ="UTC", PYTHONDONTWRITEBYTECODE="1")
        os.execve(sys.executable, [sys.executable, "-B", "-m", "vmc"] + sys.argv[1:], env)
    os.environ["TZ"] = "UTC"
    import faulthandler
    import signal

    faulthandler.register(signal.SIGUSR1, all_threads=True)   # kill -USR1 <pid> dumps the Python stack
    base = "/dev/shm" if os.path.isdir("/dev/shm") and os.access("/dev/shm", os.W_OK) else None
    scratch = tempfile.mkdtemp(prefix="vmc_", dir=base)
    os.environ["TMPDIR"] = scratch
    tempfile.tempdir = scratch
    mypid = os.getpid()

    def _cleanup():
        if os.getpid() == mypid:
            shutil.rmtree(scratch, ignore_errors=True)

    atexit.register(_cleanup)

    repo_src = os.environ.get("VMC_REPO_SRC", "/repo/src")
    sys.path.insert(0, repo_src)
    import wikitextprocessor  # noqa: E402

    if not os.path.abspath(wikitextprocessor.__file__).startswith(os.path.abspath(repo_src)):
        print("HARNESS-ERROR wikitextprocessor imported from", wikitextprocessor.__file__)
        return 2
    import logging

    logging.disable(logging.CRITICAL)

    prop = args.prop.upper()
    if prop == "BASELINE":
        from . import baseline

        return baseline.main()
    if prop == "SELFTEST":
        from . import selftest

        return selftest.main()
    mod = importlib.import_module("vmc.props." + prop.lower())
    seed = int(os.environ.get("VERIF_SEED", "0") or 0)
    if args.replay:
        with open(args.replay, encoding="utf-8") as f:
            rp = json.load(f)
        if rp.get("state_dependent") and rp.get("chunk"):
            # the case fails only after the cases before it in its chunk: run the chunk's work function on its payload
            from . import runner

            wname = rp["chunk"]["work"].rsplit(".", 1)
            work = getattr(importlib.import_module(wname[0]), wname[1])
            runner.Acc.watch, runner.Acc.watch_hit = (rp["oracle"], runner.jdump(rp["case"])), False
            try:
                work(_tuplify(rp["chunk"]["payload"]), frozenset(), lambda i: None)
            except BaseException:
                pass
            if runner.Acc.watch_hit:
                print("VIOLATION property=%s replay=%s" % (prop, os.path.abspath(args.replay)))
                print("  oracle=%s reproduced by re-running its chunk (state left behind by an earlier case)" % rp["oracle"])
                return 1
            print("replay: no violation reproduced for", args.replay)
            return 0
        res = mod.replay(rp["case"])
        res = [r for r in res if r["oracle"] == rp["oracle"]] if rp.get("oracle") else res
        if res:
            print("VIOLATION property=%s replay=%s" % (prop, os.path.abspath(args.replay)))
            for r in res[:5]:
                print("  oracle=%s observed=%s expected=%s" % (
                    r["oracle"], json.dumps(r.get("observed"), default=str)[:600],
                    json.dumps(r.get("expected"), default=str)[:600]))
            return 1
        print("replay: no violation reproduced for", args.replay)
        return 0
    from .runner import Run

    run = Run(prop, args.tier, seed, mod.LEVEL)
    run.nproc = args.nproc
    try:
        return mod.main(run)
    except Exception:
        # The library failed inside the harness in a way no per-case oracle caught (e.g. an exception escaping
        # from a fixture call).  On the unchanged tree this never happens; on a changed tree it is a finding.
        import time
        import traceback

        tb = traceback.format_exc()
        rdir = os.path.join(os.path.dirname(os.path.dirname(os.path.abspath(__file__))), "replays", prop)
        os.makedirs(rdir, exist_ok=True)
        path = os.path.join(rdir, "crash_%d.json" % int(time.time()))
        with open(path, "w", encoding="utf-8") as f:
            json.dump({"property": prop, "oracle": "check_completes", "tier": args.tier, "case": {"traceback": tb}}, f, indent=1)
        print(tb)
        print("VIOLATION property=%s replay=%s" % (prop, path))
        print("  oracle=check_completes: the exploration aborted with an exception raised from the code under test")
        return 1


if __name__ == "__main__":
    rc = main()
    sys.stdout.flush()
    sys.exit(rc)
