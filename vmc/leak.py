"""Violations that depend on what the long-lived context of a worker has processed before.

The enumerating checks reuse one context for thousands of cases (creating one per case would cost more than the case).
If the code under test leaves state behind (a flag not restored, a cache not flushed), the case that *shows* the damage
is usually not the case that *caused* it, and replaying the victim alone on a fresh context shows nothing.  settle()
separates the two: violations that also occur on a fresh context are reported as they are; the others are reported
under LEAK_ORACLE with the shortest history (culprit, victim) found among the recent cases, which replays on a fresh
context.  The caller then replaces its context, so one culprit gives one report instead of poisoning the rest of the chunk.
"""
from __future__ import annotations

LEAK_ORACLE = "same_result_as_on_a_fresh_context"
RECENT = 150


MAX_LEAKS = 4   # per chunk: after that many reports the rest of the chunk is given up (each report costs a search)


class Recent:
    def __init__(self, n=RECENT):
        self.n, self.items, self.leaks = n, [], 0

    def leaked(self):
        """Call after reporting a leak; gives up the chunk after MAX_LEAKS of them."""
        self.leaks += 1
        del self.items[:]
        if self.leaks >= MAX_LEAKS:
            from .pool import Bail
            raise Bail("chunks_abandoned_after_%d_state_leaks" % MAX_LEAKS)

    def push(self, case):
        self.items.append(case)
        if len(self.items) > self.n:
            del self.items[0]


def _names(out):
    return {o for o, _, _ in out}


def settle(run_case, cur, recent, out, fresh_ctx, close):
    """run_case(ctx, case) -> [(oracle, observed, expected)].  Returns (own, leak): own = the violations of `out` that a
    fresh context shows too; leak = None or (history, violations) with history a list of cases ending in cur (None if no
    history among the recent cases reproduces it)."""
    ctx2 = fresh_ctx()
    try:
        out2 = run_case(ctx2, cur)
    finally:
        close(ctx2)
    own = [v for v in out if v[0] in _names(out2)]
    rest = [v for v in out if v[0] not in _names(out2)]
    if not rest:
        return own, None
    want = _names(rest)

    def shows(hist):
        c = fresh_ctx()
        try:
            for h in hist[:-1]:
                try:
                    run_case(c, h)
                except Exception:
                    pass
            return bool(_names(run_case(c, hist[-1])) & want)
        finally:
            close(c)

    for prev in reversed(recent.items):
        if shows([prev, cur]):
            return own, ([prev, cur], rest)
    hist = list(recent.items) + [cur]
    if shows(hist):
        return own, (hist, rest)
    return own, (None, rest)


def replay_history(run_case, history, fresh_ctx, close):
    c = fresh_ctx()
    try:
        for h in history[:-1]:
            try:
                run_case(c, h)
            except Exception:
                pass
        out = run_case(c, history[-1])
    finally:
        close(c)
    return [{"oracle": LEAK_ORACLE, "observed": {"oracle": o, "observed": ob}, "expected": ex} for o, ob, ex in out]
