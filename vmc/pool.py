"""Process pool with a per-case watchdog.

Workers are forked (so work functions need not be picklable by reference to
anything but module-level names).  A task is (chunk_id, payload); the work
function is called as  work(payload, skip, report)  where `skip` is a set of
case indexes inside the chunk that must not be executed (they hung before) and
`report(i)` must be called before case i starts.  If a worker spends more than
`case_timeout` seconds after a report(i) the worker is killed, index i is
recorded as hung, and the chunk is re-run from the start with i in `skip`.
A hang is therefore a *result* of a case, never a harness failure.
"""
from __future__ import annotations

import multiprocessing as mp
import os
import queue as queue_mod
import resource
import signal
import time
import traceback

CTX = mp.get_context("fork")


def _die_with_parent(parent_pid):
    """Workers must not outlive the check: if the parent is killed (a caller's timeout), the kernel kills the worker."""
    try:
        import ctypes
        ctypes.CDLL(None, use_errno=True).prctl(1, int(signal.SIGKILL), 0, 0, 0)   # PR_SET_PDEATHSIG
    except Exception:
        pass
    if os.getppid() != parent_pid:   # the parent died before prctl took effect
        os._exit(1)


def _worker(widx, work, init, taskq, resq, cur, mem_limit, parent_pid=None):
    signal.signal(signal.SIGINT, signal.SIG_IGN)
    if parent_pid is not None:
        _die_with_parent(parent_pid)
    if mem_limit:
        try:
            resource.setrlimit(resource.RLIMIT_AS, (mem_limit, mem_limit))
        except (ValueError, OSError):
            pass
    state = None
    try:
        if init is not None:
            state = init()
    except BaseException:
        resq.put(("fatal", widx, None, traceback.format_exc()))
        return
    while True:
        task = taskq.get()
        if task is None:
            return
        lose = os.environ.get("VMC_POOL_SELFTEST_LOSE_ONE")   # selftest only: the first task anybody takes vanishes
        if lose:
            try:
                os.close(os.open(lose, os.O_CREAT | os.O_EXCL | os.O_WRONLY))
                continue
            except FileExistsError:
                pass
        chunk_id, payload, skip = task
        base = widx * 3
        cur[base] = chunk_id
        cur[base + 1] = -1
        cur[base + 2] = time.monotonic()

        def report(i, _b=base, _skip=skip):
            if len(_skip) >= MAX_HANGS and i > max(_skip):
                raise Bail()
            cur[_b + 1] = i
            cur[_b + 2] = time.monotonic()

        try:
            if state is not None:
                res = work(payload, skip, report, state)
            else:
                res = work(payload, skip, report)
            cur[base] = -1
            resq.put(("ok", widx, chunk_id, res))
        except Bail as bail:
            # three cases of this chunk never came back: the hangs are recorded (the work function reports each skipped
            # index as a violation); the rest of the chunk is not executed so that a non-termination bug costs seconds
            from .runner import Acc
            res = Acc.current
            if res is not None:
                res.count(bail.reason or "chunks_abandoned_after_%d_hangs" % MAX_HANGS)
            cur[base] = -1
            resq.put(("ok", widx, chunk_id, res))
        except BaseException:
            cur[base] = -1
            resq.put(("err", widx, chunk_id, traceback.format_exc()))


MAX_HANGS = 3


class Bail(BaseException):
    """Raised inside a work function to give up the rest of its chunk (what was found so far is kept)."""

    def __init__(self, reason=None):
        super().__init__(reason)
        self.reason = reason


def _hang_acc(payload, idx, case_timeout):
    from .runner import Acc
    prop = Acc.current.prop if Acc.current is not None else "?"
    keep = Acc.current
    acc = Acc(prop)
    Acc.current = keep
    acc.case()
    acc.violation("returns_in_time", {"chunk": repr(payload)[:400], "case_index_in_chunk": idx},
                  "the case did not return within %g s twice (worker killed)" % case_timeout, "returns")
    return acc


class HangError(Exception):
    pass


RUNS = []   # (work, chunks, init) of every run_chunks() call of this process, for chunk-level replays (runner.chunk_replay)


def _tag(res, run_idx, cid):
    """Marks the violations of a chunk with where they came from."""
    for lst in getattr(res, "viol", {}).values():
        for v in lst:
            v.setdefault("chunk", [run_idx, cid])
    return res


def run_chunks(work, chunks, nproc=None, case_timeout=20.0, mem_limit=6 << 30,
               init=None, progress=None):
    """Run work over chunks; yields (chunk_id, result, hung_indexes).

    chunks: list of payloads (chunk_id = index).  Order of results is not the
    order of chunks.  A worker exception is re-raised in the parent (harness
    error), a hang is reported through hung_indexes.
    """
    chunks = list(chunks)
    if not chunks:
        return
    run_idx = len(RUNS)
    RUNS.append((work, chunks, init))
    nproc = max(1, min(nproc or (os.cpu_count() or 4), len(chunks)))
    q = {"task": CTX.Queue(), "res": CTX.Queue()}
    cur = CTX.Array("d", nproc * 3, lock=False)
    for i in range(nproc):
        cur[i * 3] = -1
    procs = {}
    skips = {i: set() for i in range(len(chunks))}

    def spawn(widx):
        cur[widx * 3] = -1
        p = CTX.Process(target=_worker,
                        args=(widx, work, init, q["task"], q["res"], cur, mem_limit, os.getpid()),
                        daemon=True)
        p.start()
        procs[widx] = p

    for w in range(nproc):
        spawn(w)
    for cid, payload in enumerate(chunks):
        q["task"].put((cid, payload, frozenset()))
    pending = set(range(len(chunks)))
    last_result = time.monotonic()
    stall = float(os.environ.get("VMC_POOL_STALL") or max(3 * case_timeout, 60.0))

    def rebuild():
        """A worker that the watchdog kills in the instant it has finished its chunk can die holding the lock of a shared
        queue; everybody then waits for that lock for ever.  Seen as: chunks pending, every worker idle, no result for a
        long time.  Way out: new queues, new workers, the pending chunks queued again (a chunk whose result was lost with
        the old queue is run again)."""
        for p in list(procs.values()):
            try:
                os.kill(p.pid, signal.SIGKILL)
            except (ProcessLookupError, TypeError):
                pass
            p.join(5)
        procs.clear()
        for old in (q["task"], q["res"]):
            old.cancel_join_thread()
        q["task"], q["res"] = CTX.Queue(), CTX.Queue()
        for w in range(nproc):
            spawn(w)
        for cid in sorted(pending):
            q["task"].put((cid, chunks[cid], frozenset(skips[cid])))

    try:
        while pending:
            try:
                kind, widx, cid, res = q["res"].get(timeout=0.25)
                last_result = time.monotonic()
            except queue_mod.Empty:
                kind = None
                if time.monotonic() - last_result > stall and all(cur[w * 3] < 0 for w in range(nproc)):
                    rebuild()
                    last_result = time.monotonic()
                    continue
            if kind == "ok":
                if cid in pending:
                    pending.discard(cid)
                    if progress:
                        progress(len(chunks) - len(pending), len(chunks))
                    yield cid, _tag(res, run_idx, cid), sorted(skips[cid])
                continue
            if kind in ("err", "fatal"):
                raise RuntimeError("worker failure in chunk %r:\n%s" % (cid, res))
            now = time.monotonic()
            for widx, p in list(procs.items()):
                base = widx * 3
                cid = int(cur[base])
                if cid >= 0 and now - cur[base + 2] > case_timeout:
                    if int(cur[base]) != cid or time.monotonic() - cur[base + 2] <= case_timeout:
                        continue     # it has moved on in the meantime
                    idx = int(cur[base + 1])
                    try:
                        os.kill(p.pid, signal.SIGKILL)
                    except ProcessLookupError:
                        pass
                    p.join(5)
                    if cid in pending:
                        if idx < 0:
                            raise HangError("chunk %d hung before its first case" % cid)
                        if idx in skips[cid]:
                            # the work function does not honour `skip` (it ran the hung case again): give the chunk up and
                            # report the hang from here, identified by chunk payload and case index
                            pending.discard(cid)
                            yield cid, _hang_acc(chunks[cid], idx, case_timeout), sorted(skips[cid])
                        else:
                            skips[cid].add(idx)
                            q["task"].put((cid, chunks[cid], frozenset(skips[cid])))
                    spawn(widx)
                elif not p.is_alive() and cid >= 0 and cid in pending:
                    # died (e.g. OOM kill / segfault): treat current case as hung
                    idx = int(cur[base + 1])
                    if idx < 0:
                        raise HangError("worker died in chunk %d before first case" % cid)
                    if idx in skips[cid]:
                        pending.discard(cid)
                        yield cid, _hang_acc(chunks[cid], idx, case_timeout), sorted(skips[cid])
                    else:
                        skips[cid].add(idx)
                        q["task"].put((cid, chunks[cid], frozenset(skips[cid])))
                    spawn(widx)
    finally:
        for _ in procs:
            try:
                q["task"].put(None)
            except Exception:
                pass
        deadline = time.monotonic() + 2
        for p in procs.values():
            p.join(max(0.0, deadline - time.monotonic()))
            if p.is_alive():
                try:
                    os.kill(p.pid, signal.SIGKILL)
                except ProcessLookupError:
                    pass
        q["task"].cancel_join_thread()
        q["res"].cancel_join_thread()
