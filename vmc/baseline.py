"""Runs the repository's baseline test command (guard off) and compares the set of
passing tests with BASELINE.json stable_pass.  Usage: python -m vmc baseline [repo_root]"""
import json
import os
import subprocess
import sys
import tempfile
import xml.etree.ElementTree as ET


def run(root="/repo"):
    base = json.load(open("/root/.vp/BASELINE.json"))
    fd, out = tempfile.mkstemp(suffix=".xml")
    os.close(fd)
    env = {k: v for k, v in os.environ.items() if k != "WIKITEXTPROCESSOR_VERIF"}
    env["PYTHONPATH"] = os.path.join(root, "src")
    cmd = ["/venv/bin/python", "-m", "pytest", "-ra", "-q", "-p", "no:cacheprovider", "--timeout=900",
           "--continue-on-collection-errors", "--junitxml=" + out]
    if os.path.exists("/venv/lib/python3.12/site-packages/xdist"):
        cmd += ["-n", "8"]
    subprocess.run(cmd, cwd=root, env=env, stdout=subprocess.DEVNULL, stderr=subprocess.DEVNULL)
    passed = set()
    for tc in ET.parse(out).getroot().iter("testcase"):
        if not any(ch.tag in ("failure", "error", "skipped") for ch in tc):
            passed.add(tc.get("classname") + "::" + tc.get("name"))
    os.remove(out)
    want = set(base["stable_pass"])
    missing = sorted(want - passed)
    return len(passed), len(want), missing


def main():
    root = "/repo"
    for a in sys.argv[1:]:
        if os.path.isdir(a):
            root = a
    npass, nwant, missing = run(root)
    print("baseline: passed=%d stable_pass=%d missing=%d" % (npass, nwant, len(missing)))
    for m in missing[:40]:
        print("  MISSING", m)
    return 1 if missing else 0
