"""Shared fixtures: contexts, the offline ustring stand-in, Lua helper modules."""
from __future__ import annotations

import os
import tempfile

from wikitextprocessor import Wtp

# The Scribunto submodule (with ustring) is absent offline; the loader consults
# the page store first (luaexec.lua_loader), so a page-store module of that name
# makes the Lua bridge executable.  Fixture only -- not a repo change.
USTRING = """
local u = {}
for k, v in pairs(string) do u[k] = v end
u.len = string.len
u.toNFC = function(s) return s end
u.toNFD = function(s) return s end
return u
"""


def new_ctx(db_path=None, lua=False, **kw):
    kw.setdefault("quiet", True)
    kw.setdefault("quiet_output", True)
    ctx = Wtp(db_path=db_path, **kw)
    if lua:
        add_ustring(ctx)
    return ctx


def add_ustring(ctx):
    ctx.add_page("Module:ustring:ustring", 828, USTRING, model="Scribunto")


def close_ctx(ctx):
    try:
        ctx.close_db_conn()
    except Exception:
        pass


def scratch_dir(prefix="d"):
    return tempfile.mkdtemp(prefix=prefix + "_", dir=tempfile.gettempdir())


def clear_page_cache(ctx):
    # get_page is an lru_cache'd method shared by all contexts
    type(ctx).get_page.cache_clear()
